// C10 / C11 driver: SLUFactor<double> and SLUFactorRational stand-alone.
// Matrices are generated so that singularity is decidable exactly: nonsingular ones are (permuted) strictly
// diagonally dominant with small-integer / power-of-two entries (well conditioned), singular ones are exactly singular
// (zero column, duplicate column, linear combination).  TLC recomputes everything exactly (spec/TV_LU.tla).
//   lu_drv <real|rational> <seed> <nexec> <len> <out.ndjson>
#include "soplex.h"
#include "vt.h"
#include <memory>
#include <sys/wait.h>
#include <signal.h>
using namespace soplex;
using namespace vt;

typedef std::vector<std::vector<double>> Mat;   // column major: M[j][i]

static Mat genNonsingular(Rng& g, int n, int kind, std::vector<int>& domRow)
{
   Mat M(n, std::vector<double>(n, 0.0));
   std::vector<int> perm(n); for(int i = 0; i < n; i++) perm[i] = i; std::shuffle(perm.begin(), perm.end(), g.g);
   domRow.assign(n, 0);
   for(int j = 0; j < n; j++)
   {
      int r = perm[j]; domRow[j] = r; double off = 0;
      int dens = kind == 0 ? 0 : kind == 1 ? 20 : kind == 2 ? 50 : 90;          // permuted identity / sparse / medium / dense bump
      for(int i = 0; i < n; i++) if(i != r && g.R(0, 99) < dens) { double v; do v = g.R(-3, 3); while(v == 0); M[j][i] = v; off += std::fabs(v); }
      if(kind == 4) { for(int i = 0; i < n; i++) if(i != r) M[j][i] = (perm[j] > i) ? 0.0 : M[j][i]; off = 0; for(int i = 0; i < n; i++) if(i != r) off += std::fabs(M[j][i]); }   // triangular-ish
      double d = off + g.R(1, 3); if(g.coin()) d = -d;
      M[j][r] = d;
   }
   if(kind == 5) { for(int j = 0; j < n; j++) { int e = g.R(-20, 20); for(int i = 0; i < n; i++) M[j][i] = std::ldexp(M[j][i], e); } }    // badly scaled columns
   return M;
}
static void makeSingular(Rng& g, Mat& M, int how)
{
   int n = (int)M.size(); int a = g.R(0, n - 1), b = g.R(0, n - 1); if(n > 1) while(b == a) b = g.R(0, n - 1);
   if(how == 0 || n == 1) for(double& v : M[a]) v = 0;                                         // zero column
   else if(how == 1) M[a] = M[b];                                                              // duplicate column
   else if(how == 2) for(int i = 0; i < n; i++) M[a][i] = -3 * M[b][i];                         // scaled duplicate
   else { int c2 = g.R(0, n - 1); for(int i = 0; i < n; i++) M[a][i] = (n > 2 && c2 != a && c2 != b ? M[c2][i] : 0) + 2 * M[b][i]; if(!(n > 2 && c2 != a && c2 != b)) for(int i = 0; i < n; i++) M[a][i] = 2 * M[b][i]; }   // dependent
}
static std::string colsJson(const Mat& M) { return jarr((int)M.size(), [&](int j) { return jdblraw(M[j].data(), (int)M[j].size()); }); }
static std::string vecJson(const VectorBase<double>& v) { return jarr(v.dim(), [&](int i) { return jq(qdraw(v[i])); }); }
// SSVectors as the simplex allocates them: reDim() reserves dim+1 index slots (the update solves write one slot ahead)
struct SSV : SSVectorBase<double> { SSV(int n, std::shared_ptr<Tolerances> t) : SSVectorBase<double>(n, t) { reDim(n); } };
struct SSVQ : SSVectorRational { explicit SSVQ(int n) : SSVectorRational(n) { reDim(n); } };
static std::string ssJson(const SSVectorBase<double>& v) { return jarr(v.dim(), [&](int i) { return jq(qdraw(v[i])); }); }

static bool g_forceStress = false;
static void runReal(Rng& g, int len)
{
   T().line("{\"a\":\"Reset\"}");
   auto tol = std::make_shared<Tolerances>();
   SLUFactor<double> lu; lu.setTolerances(tol);
   int n = g.R(1, (int)envl("VERIF_LU_MAXDIM", 8));
   // stress executions: long sequences of dense column replacements without refactorization (fills U's row/column files)
   bool stress = g_forceStress ? true : g.coin(1, 4); int lastIdx = 0; if(stress) n = std::max(n, (int)envl("VERIF_LU_MAXDIM", 8) + 2);
   int utype = stress ? (g.coin(3, 4) ? 1 : 0) : g.R(0, 1); lu.setUtype(utype ? SLUFactor<double>::FOREST_TOMLIN : SLUFactor<double>::ETA);
   static const double mk[] = {1e-4, 0.01, 0.1, 0.9999}; double markowitz = mk[g.R(0, 3)]; lu.setMarkowitz(markowitz);
   std::vector<int> domRow; Mat M; bool loaded = false; int updates = 0;
   std::vector<DSVectorBase<double>> cols;
   auto doLoad = [&]()
   {
      int kind = stress ? g.R(0, 1) : g.R(0, 5); M = genNonsingular(g, n, kind, domRow);
      bool singular = !stress && g.coin(1, 6); int singHow = -1; if(singular) { singHow = g.R(0, 3); makeSingular(g, M, singHow); }
      cols.assign(n, DSVectorBase<double>()); std::vector<const SVectorBase<double>*> ptr(n);
      for(int j = 0; j < n; j++) { cols[j].clear(); for(int i = 0; i < n; i++) if(M[j][i] != 0) cols[j].add(i, M[j][i]); ptr[j] = &cols[j]; }
      pending() = "load";
      int st = (int)lu.load(ptr.data(), n);
      J ev; ev.s("a", "load").i("n", n).i("utype", utype).q("markowitz", markowitz).i("kind", kind).b("madeSingular", singular).i("singHow", singHow).raw("cols", colsJson(M)).i("status", st);
      T().line(ev.str());
      loaded = st == 0; updates = 0;
   };
   doLoad();
   if(stress) len *= 3;
   for(int step = 0; step < len; step++)
   {
      if(!loaded) { doLoad(); continue; }
      int k = g.R(0, 99);
      VectorBase<double> b(n); bool sparseRhs = g.coin();
      for(int i = 0; i < n; i++) b[i] = (sparseRhs && g.coin(2, 3)) ? 0.0 : (double)g.R(-4, 4);
      DSVectorBase<double> bs(n); for(int i = 0; i < n; i++) if(b[i] != 0) bs.add(i, b[i]);
      if(k < 15) { VectorBase<double> x(n); pending() = "solveRight dense"; lu.solveRight(x, b);
                   J ev; ev.s("a", "solve").s("side", "right").s("variant", "dense").raw("b", vecJson(b)).raw("x", vecJson(x)); T().line(ev.str()); }
      else if(k < 28) { SSV x(n, tol); pending() = "solveRight sparse"; lu.solveRight(x, bs);
                        J ev; ev.s("a", "solve").s("side", "right").s("variant", "sparse").raw("b", vecJson(b)).raw("x", ssJson(x)); T().line(ev.str()); }
      else if(k < 40) { VectorBase<double> x(n); pending() = "solveLeft dense"; lu.solveLeft(x, b);
                        J ev; ev.s("a", "solve").s("side", "left").s("variant", "dense").raw("b", vecJson(b)).raw("x", vecJson(x)); T().line(ev.str()); }
      else if(k < 52) { SSV x(n, tol); pending() = "solveLeft sparse"; lu.solveLeft(x, bs);
                        J ev; ev.s("a", "solve").s("side", "left").s("variant", "sparse").raw("b", vecJson(b)).raw("x", ssJson(x)); T().line(ev.str()); }
      else if(k < 60)
      {
         // two and three left-hand sides at once: must equal the single solves
         VectorBase<double> b2(n), b3(n); for(int i = 0; i < n; i++) { b2[i] = g.coin() ? 0.0 : (double)g.R(-3, 3); b3[i] = g.coin() ? 0.0 : (double)g.R(-3, 3); }
         SSV x(n, tol), d(n, tol), e(n, tol); VectorBase<double> y(n), z(n);
         for(int i = 0; i < n; i++) { if(b2[i] != 0) d.setValue(i, b2[i]); if(b3[i] != 0) e.setValue(i, b3[i]); }
         bool three = g.coin();
         pending() = three ? "solveLeft 3" : "solveLeft 2";
         if(three) lu.solveLeft(x, y, z, bs, d, e); else lu.solveLeft(x, y, bs, d);
         J ev; ev.s("a", "solveMulti").s("side", "left").i("k", three ? 3 : 2).raw("b", vecJson(b)).raw("x", ssJson(x)).raw("b2", vecJson(b2)).raw("y", vecJson(y))
            .raw("b3", three ? vecJson(b3) : "[]").raw("z", three ? vecJson(z) : "[]"); T().line(ev.str());
      }
      else if((k < 90 || stress) && updates < (stress ? 120 : 2 * n + 4))
      {
         // column replacement with the simplex protocol: solveRight4update(new column) [+ other solves] + change
         int idx = (stress && g.coin()) ? lastIdx : g.R(0, n - 1); lastIdx = idx; std::vector<double> nc(n, 0.0); double off = 0; int r = domRow[idx];
         for(int i = 0; i < n; i++) if(i != r && (stress ? g.coin(3, 4) : g.coin(1, 3))) { double v; do v = g.R(-3, 3); while(v == 0); nc[i] = v; off += std::fabs(v); }
         nc[r] = (off + g.R(1, 3)) * (g.coin() ? 1 : -1);
         DSVectorBase<double> ncs(n); for(int i = 0; i < n; i++) if(nc[i] != 0) ncs.add(i, nc[i]);
         int proto = g.R(0, 8);
         SSV x(n, tol);
         if(proto < 6) { pending() = "solveRight4update"; lu.solveRight4update(x, ncs);
                         J ev; ev.s("a", "solve").s("side", "right").s("variant", "4update").raw("b", jdblraw(nc.data(), n)).raw("x", ssJson(x)); T().line(ev.str()); }
         else if(proto < 8)
         {
            VectorBase<double> y(n); SSV d(n, tol); VectorBase<double> b2(n); for(int i = 0; i < n; i++) { b2[i] = g.coin() ? 0.0 : (double)g.R(-3, 3); if(b2[i] != 0) d.setValue(i, b2[i]); }
            pending() = "solve2right4update"; lu.solve2right4update(x, y, ncs, d);
            J ev; ev.s("a", "solveMulti").s("side", "right").i("k", 2).raw("b", jdblraw(nc.data(), n)).raw("x", ssJson(x)).raw("b2", vecJson(b2)).raw("y", vecJson(y)).raw("b3", "[]").raw("z", "[]"); T().line(ev.str());
         }
         else if(proto < 9)
         {
            VectorBase<double> y(n), z(n); SSV d(n, tol), e(n, tol); VectorBase<double> b2(n), b3(n);
            for(int i = 0; i < n; i++) { b2[i] = g.coin() ? 0.0 : (double)g.R(-3, 3); if(b2[i] != 0) d.setValue(i, b2[i]); b3[i] = g.coin() ? 0.0 : (double)g.R(-3, 3); if(b3[i] != 0) e.setValue(i, b3[i]); }
            pending() = "solve3right4update"; lu.solve3right4update(x, y, z, ncs, d, e);
            J ev; ev.s("a", "solveMulti").s("side", "right").i("k", 3).raw("b", jdblraw(nc.data(), n)).raw("x", ssJson(x)).raw("b2", vecJson(b2)).raw("y", vecJson(y)).raw("b3", vecJson(b3)).raw("z", vecJson(z)); T().line(ev.str());
         }
         // (change() without a preceding ...4update solve is never issued by the simplex: SPxBasis::change always follows solve4update.
         //  That path of SLUFactor::change is dead code: assert(0) under Forrest-Tomlin, index -1 read under ETA; see DESIGN.md)
         if(g.coin(1, 3)) { VectorBase<double> xl(n); pending() = "solveLeft between"; lu.solveLeft(xl, b);      // a left solve between the 4update solve and change, as the simplex does
                            J ev; ev.s("a", "solve").s("side", "left").s("variant", "dense").raw("b", vecJson(b)).raw("x", vecJson(xl)); T().line(ev.str()); }
         pending() = "change";
         int st = (int)lu.change(idx, ncs, &x);
         M[idx] = nc; updates++;
         J ev; ev.s("a", "change").i("i", idx).raw("col", jdblraw(nc.data(), n)).i("status", st).i("proto", proto); T().line(ev.str());
         if(st != 0) loaded = false;
      }
      else doLoad();
   }
}

// ---------------------------------------------------------------- rational factorization (C11)
static Rational randRat(Rng& g, int bits)
{
   Rational num(g.R(-9, 9)); if(num == 0) num = 1;
   Rational two(2); Rational p(1); for(int i = 0; i < bits; i++) p *= two;
   switch(g.R(0, 3)) { case 0: return num; case 1: return num / Rational(g.R(2, 9)); case 2: return num * p + Rational(g.R(0, 3)); default: return num / (p + Rational(1)); }
}
static std::string qs(const Rational& r) { return qmpq(r.backend().data()); }
static void runRational(Rng& g, int len)
{
   T().line("{\"a\":\"Reset\"}");
   SLUFactorRational lu;
   int n = g.R(1, (int)envl("VERIF_LU_MAXDIM", 7));
   for(int step = 0; step < len; step++)
   {
      int bits = g.R(1, (int)envl("VERIF_LU_BITS", 60));
      std::vector<std::vector<Rational>> M(n, std::vector<Rational>(n));
      // random dense-ish rational matrix; nonsingularity is decided by TLC (exact determinant)
      for(int j = 0; j < n; j++) for(int i = 0; i < n; i++) M[j][i] = g.R(0, 99) < 55 ? randRat(g, bits) : Rational(0);
      int how = g.R(0, 7);
      // small integer entries: intermediate results of the solves cancel exactly
      if(how >= 6) for(int j = 0; j < n; j++) for(int i = 0; i < n; i++) M[j][i] = g.R(0, 99) < 60 ? Rational(g.R(-2, 2)) : Rational(0);
      if(how == 0 && n > 1) M[g.R(0, n - 1)] = M[0];                                               // duplicate (or same) column
      if(how == 1) for(auto& v : M[g.R(0, n - 1)]) v = 0;                                           // zero column
      if(how == 2 && n > 2) { int a = g.R(0, n - 1); for(int i = 0; i < n; i++) M[a][i] = M[(a + 1) % n][i] * Rational(1) / Rational(3) - M[(a + 2) % n][i]; }
      if(how == 3 && n > 1) { for(int i = 0; i < n; i++) M[1][i] = M[0][i]; Rational e(1); for(int i = 0; i < 70; i++) e /= Rational(2); M[1][0] += e; }   // double rounding is singular, exact matrix is not
      std::vector<DSVectorRational> cols(n); std::vector<const SVectorRational*> ptr(n);
      for(int j = 0; j < n; j++) { for(int i = 0; i < n; i++) if(M[j][i] != 0) cols[j].add(i, M[j][i]); ptr[j] = &cols[j]; }
      pending() = "load rational";
      int st = (int)lu.load(ptr.data(), n);
      { J ev; ev.s("a", "load").i("n", n).i("utype", 0).s("markowitz", "0").i("kind", how).b("madeSingular", false)
           .raw("cols", jarr(n, [&](int j) { return jarr(n, [&](int i) { return jq(qs(M[j][i])); }); })).i("status", st); T().line(ev.str()); }
      if(st != 0) continue;
      for(int t = 0; t < 4; t++)
      {
         VectorRational b(n); bool sp = g.coin(); for(int i = 0; i < n; i++) b[i] = (sp && g.coin(2, 3)) ? Rational(0) : (how >= 6 ? Rational(g.R(-2, 2)) : randRat(g, 8));
         DSVectorRational bs(n); for(int i = 0; i < n; i++) if(b[i] != 0) bs.add(i, b[i]);
         auto vj = [&](const VectorRational& v) { return jarr(v.dim(), [&](int i) { return jq(qs(v[i])); }); };
         auto sj = [&](const SSVectorRational& v) { return jarr(v.dim(), [&](int i) { return jq(qs(v[i])); }); };
         int k = g.R(0, 3);
         if(k == 0) { VectorRational x(n); pending() = "solveRight rational dense"; lu.solveRight(x, b); J ev; ev.s("a", "solve").s("side", "right").s("variant", "dense").raw("b", vj(b)).raw("x", vj(x)); T().line(ev.str()); }
         else if(k == 1) { SSVQ x(n); pending() = "solveRight rational sparse"; lu.solveRight(x, bs); J ev; ev.s("a", "solve").s("side", "right").s("variant", "sparse").raw("b", vj(b)).raw("x", sj(x)); T().line(ev.str()); }
         else if(k == 2) { VectorRational x(n); pending() = "solveLeft rational dense"; lu.solveLeft(x, b); J ev; ev.s("a", "solve").s("side", "left").s("variant", "dense").raw("b", vj(b)).raw("x", vj(x)); T().line(ev.str()); }
         else { SSVQ x(n); pending() = "solveLeft rational sparse"; lu.solveLeft(x, bs); J ev; ev.s("a", "solve").s("side", "left").s("variant", "sparse").raw("b", vj(b)).raw("x", sj(x)); T().line(ev.str()); }
      }
   }
}

static void onWatchdog(int) { crashLine("execution did not finish within 120 s (hang)"); _exit(0); }
int main(int argc, char** argv)
{
   if(argc < 6) { fprintf(stderr, "usage: lu_drv <real|rational> <seed> <nexec> <len> <out>\n"); return 2; }
   std::string wl = argv[1]; unsigned long seed = strtoul(argv[2], nullptr, 10); int nexec = atoi(argv[3]), len = atoi(argv[4]);
   { FILE* f = fopen(argv[5], "w"); if(!f) return 2; fclose(f); }
   for(int e = 0; e < nexec; e++)
   {
      bool nofork = getenv("VERIF_NOFORK") != nullptr;
      pid_t pid = nofork ? 0 : fork();
      if(pid == 0)
      {
         T().f = fopen(argv[5], "a"); if(!T().f) _exit(2); setvbuf(T().f, nullptr, _IOLBF, 1 << 16);
         if(!nofork) { installCrashHandlers(); signal(SIGALRM, onWatchdog); alarm(120); }
         Rng g(seed * 1000003UL + (unsigned long)e);
         if(wl == "real") runReal(g, len); else if(wl == "stress") { g_forceStress = true; runReal(g, len); } else runRational(g, len);
         T().close(); if(!nofork) _exit(0);
      }
      else if(pid > 0) { int status = 0; waitpid(pid, &status, 0);
         if(WIFSIGNALED(status)) { FILE* f = fopen(argv[5], "a"); if(f) { fprintf(f, "{\"a\":\"Crash\",\"what\":\"killed by signal %d\",\"during\":\"\"}\n", WTERMSIG(status)); fclose(f); } } }
      else return 2;
   }
   return 0;
}
