// C15 driver: random sequences of set / parse / save / load / reset / setSettings on real SoPlex objects,
// with and without an LP loaded; one NDJSON event per call with all 81 parameter values and an LP digest.
//   params_drv <workload> <seed> <nexec> <len> <out.ndjson>
#include "proj.h"
#include <climits>
#include <memory>
#include <signal.h>
using namespace soplex;
using namespace vt;

static std::string allVals(SoPlex& s)
{
   J o;
   o.raw("b", jarr(SoPlex::BOOLPARAM_COUNT, [&](int i) { return std::string(s.boolParam((SoPlex::BoolParam)i) ? "true" : "false"); }));
   o.raw("i", jarr(SoPlex::INTPARAM_COUNT, [&](int i) { return jq(std::to_string(s.intParam((SoPlex::IntParam)i))); }));
   o.raw("r", jarr(SoPlex::REALPARAM_COUNT, [&](int i) { return jq(qd(s.realParam((SoPlex::RealParam)i))); }));
   o.i("seed", (long)s.randomSeed());
   return o.str();
}
static std::string lpDigest(SoPlex& s)
{
   // the stored LP except objective sense and offset (those two are parameters)
   std::ostringstream o; int nr = s.numRows(), nc = s.numCols();
   o << nr << "x" << nc << ";";
   for(int i = 0; i < nr; i++) { DSVector r; s.getRowVectorReal(i, r); o << qd(s.lhsReal(i)) << "<=" << spReal(r) << "<=" << qd(s.rhsReal(i)) << ";"; }
   for(int j = 0; j < nc; j++) o << qd(s.lowerReal(j)) << "," << qd(s.upperReal(j)) << "," << qd(s.objReal(j)) << ";";
   return o.str();
}
static void emit(SoPlex& s, J& ev)
{
   ev.raw("vals", allVals(s)).s("lp", lpDigest(s)).i("sense", Probe::realLP(s).spxSense() == SPxLPBase<double>::MAXIMIZE ? 1 : -1).q("lpOffset", Probe::lpOffset(s));
   T().line(ev.str());
}
static double realClass(Rng& g, double lo, double up, std::string& cls)
{
   int k = g.R(0, 9);
   switch(k)
   {
   case 0: cls = "below"; return lo > -infinity ? (lo == 0 ? -1e-9 : lo - std::fabs(lo) * 0.5 - 1e-9) : -2e100;
   case 1: cls = "lower"; return lo;
   case 2: cls = "upper"; return up;
   case 3: cls = "above"; return up < infinity ? up + std::fabs(up) * 0.5 + 1e-9 : 2e100;
   case 4: cls = "nan"; return std::nan("");
   case 5: cls = "posinf"; return HUGE_VAL;
   case 6: cls = "neginf"; return -HUGE_VAL;
   default:
      cls = "inside";
      {
         double a = lo > -infinity ? lo : -1e6, b = up < infinity ? up : (lo > 1e6 ? lo * 16 : 1e6);
         double t = (double)g.R(1, 999) / 1000.0;
         return a + (b - a) * t;
      }
   }
}
static int intClass(Rng& g, int lo, int up, std::string& cls)
{
   int k = g.R(0, 8);
   switch(k)
   {
   case 0: cls = "below"; return lo > INT_MIN ? lo - 1 : lo;
   case 1: cls = "lower"; return lo;
   case 2: cls = "upper"; return up;
   case 3: cls = "above"; return up < INT_MAX ? up + 1 : up;
   case 4: cls = "intmin"; return INT_MIN;
   case 5: cls = "intmax"; return INT_MAX;
   default: cls = "inside"; return (long)up - (long)lo > 1000 ? lo + g.R(0, 1000) : g.R(lo, up);
   }
}
static bool skipInt(int i) { return i == SoPlex::VERBOSITY; }
static bool skipReal(int i) { return i == SoPlex::INFTY; }                     // changes the meaning of every infinite bound; out of scope


static std::string mutateText(Rng& g, const std::string& in, std::string& what)
{
   std::string t = in; std::vector<std::string> lines; { std::istringstream is(in); std::string l; while(std::getline(is, l)) lines.push_back(l); }
   auto join = [&]() { std::string o; for(auto& l : lines) { o += l; o += '\n'; } return o; };
   switch(g.R(0, 9))
   {
   case 0: what = "truncate"; return t.substr(0, (size_t)g.R(0, (int)t.size()));
   case 1: what = "deleteLine"; if(!lines.empty()) lines.erase(lines.begin() + g.R(0, (int)lines.size() - 1)); return join();
   case 2: what = "nulByte"; if(!t.empty()) t[(size_t)g.R(0, (int)t.size() - 1)] = '\0'; return t;
   case 3: what = "flipChar"; if(!t.empty()) t[(size_t)g.R(0, (int)t.size() - 1)] = (char)g.R(1, 255); return t;
   case 4: { what = "longLine"; std::string big((size_t)g.R(1000, 40000), 'x'); if(!lines.empty()) lines[(size_t)g.R(0, (int)lines.size() - 1)] += big; return join(); }
   case 5: { what = "hugeNumber"; size_t p = t.find("= "); if(p != std::string::npos) t.insert(p + 2, g.coin() ? "99999999999999999999999999" : "1e99999"); return t; }
   case 6: what = "empty"; return "";
   case 7: { what = "binaryJunk"; std::string j; int n = g.R(1, 300); for(int i = 0; i < n; i++) j += (char)g.R(0, 255); return t.substr(0, t.size() / 2) + j; }
   case 8: { what = "badValue"; size_t p = t.find("= "); if(p != std::string::npos) t.insert(p + 2, g.coin() ? "nan" : (g.coin() ? "-inf" : "abc")); return t; }
   default: { what = "noEquals"; size_t p = t.find('='); if(p != std::string::npos) t[p] = ' '; return t; }
   }
}
static void onAlarmP(int) { crashLine("loadSettingsFile did not return within 10 s (hang)"); _exit(0); }
static void loadSomeLP(SoPlex& s, Rng& g)
{
   int n = g.R(1, 3), m = g.R(1, 3);
   for(int j = 0; j < n; j++) { DSVector e; s.addColReal(LPCol((double)g.R(-2, 2), e, (double)g.R(1, 4), 0.0)); }
   for(int i = 0; i < m; i++) { DSVector v; for(int j = 0; j < n; j++) if(g.coin()) v.add(j, (double)g.R(1, 3)); s.addRowReal(LPRow(0.0, v, (double)g.R(1, 6))); }
}

static bool g_fuzz = false;
static void run(Rng& g, int nexec, int len, const std::string& tmpdir)
{
   signal(SIGALRM, onAlarmP);
   typedef SoPlex::Settings ST;
   for(int e = 0; e < nexec; e++)
   {
      T().line("{\"a\":\"Reset\"}");
      std::unique_ptr<SoPlex> sp(new SoPlex()); SoPlex* s = sp.get();
      s->setIntParam(SoPlex::VERBOSITY, 0);
      bool withLP = g.coin();
      if(withLP) loadSomeLP(*s, g);
      { J ev; ev.s("a", "create").i("o", 0); emit(*s, ev); }
      for(int step = 0; step < len; step++)
      {
         int k = g.R(0, 99);
         if(k < 20)
         {
            int i = g.R(0, SoPlex::BOOLPARAM_COUNT - 1); bool v = g.coin();
            pending() = std::string("setBool ") + ST::boolParam.name[i];
            bool ret = s->setBoolParam((SoPlex::BoolParam)i, v);
            J ev; ev.s("a", "set").s("t", "bool").i("id", i).s("name", ST::boolParam.name[i]).b("bv", v).s("v", v ? "1" : "0").s("cls", "inside").b("ret", ret); emit(*s, ev);
         }
         else if(k < 45)
         {
            int i = g.R(0, SoPlex::INTPARAM_COUNT - 1); if(skipInt(i)) continue;
            std::string cls; int v = intClass(g, ST::intParam.lower[i], ST::intParam.upper[i], cls);
            pending() = std::string("setInt ") + ST::intParam.name[i] + " " + std::to_string(v);
            bool ret = s->setIntParam((SoPlex::IntParam)i, v);
            J ev; ev.s("a", "set").s("t", "int").i("id", i).s("name", ST::intParam.name[i]).b("bv", false).s("v", std::to_string(v)).s("cls", cls).b("ret", ret); emit(*s, ev);
         }
         else if(k < 70)
         {
            int i = g.R(0, SoPlex::REALPARAM_COUNT - 1); if(skipReal(i)) continue;
            std::string cls; double v = realClass(g, ST::realParam.lower[i], ST::realParam.upper[i], cls);
            pending() = std::string("setReal ") + ST::realParam.name[i] + " " + cls;
            bool ret = s->setRealParam((SoPlex::RealParam)i, v);
            J ev; ev.s("a", "set").s("t", "real").i("id", i).s("name", ST::realParam.name[i]).b("bv", false).s("v", qdraw(v)).s("cls", cls).b("ret", ret); emit(*s, ev);
         }
         else if(k < 86)
         {
            // parse "type:name=value" (well-formed and malformed)
            int t = g.R(0, 2); std::ostringstream str; std::string name, vtxt, exact, cls = "inside"; int id = 0; bool wellFormed = true;
            if(t == 0) { id = g.R(0, SoPlex::BOOLPARAM_COUNT - 1); name = ST::boolParam.name[id]; bool v = g.coin(); static const char* tr[] = {"true", "TRUE", "t", "T", "1"}; static const char* fa[] = {"false", "FALSE", "f", "F", "0"};
                         vtxt = v ? tr[g.R(0, 4)] : fa[g.R(0, 4)]; exact = v ? "1" : "0"; }
            else if(t == 1) { do id = g.R(0, SoPlex::INTPARAM_COUNT - 1); while(skipInt(id)); name = ST::intParam.name[id]; int v = intClass(g, ST::intParam.lower[id], ST::intParam.upper[id], cls); vtxt = std::to_string(v); exact = vtxt; }
            else { do id = g.R(0, SoPlex::REALPARAM_COUNT - 1); while(skipReal(id)); name = ST::realParam.name[id]; double v = realClass(g, ST::realParam.lower[id], ST::realParam.upper[id], cls);
                   if(cls == "nan" || cls == "posinf" || cls == "neginf") { cls = "inside"; v = ST::realParam.defaultValue[id]; }
                   char b[64]; snprintf(b, sizeof b, "%.17g", v); vtxt = b; exact = qdraw(strtod(b, nullptr)); }
            int mal = g.R(0, 11);
            std::string tname = t == 0 ? "bool" : t == 1 ? "int" : "real";
            if(mal == 0) { vtxt = "abc"; wellFormed = false; }                              // not a number / not a boolean
            else if(mal == 1) { name += "x"; wellFormed = false; }                           // unknown parameter name
            else if(mal == 2) { tname = "foo"; wellFormed = false; }                     // unknown type
            else if(mal == 3 && t == 1) { vtxt = "99999999999999999999"; wellFormed = false; }   // out of range for int
            str << tname << ":" << name << (g.coin() ? " = " : "=") << vtxt;
            std::string line = str.str(); std::vector<char> buf(line.begin(), line.end()); buf.push_back(0);
            pending() = "parse " + line;
            bool ret = s->parseSettingsString(buf.data());
            J ev; ev.s("a", "parse").s("str", line).s("t", t == 0 ? "bool" : t == 1 ? "int" : "real").i("id", id).s("name", name).s("v", exact).s("cls", cls).b("wellFormed", wellFormed).b("ret", ret); emit(*s, ev);
         }
         else if(k < 92)
         {
            // save, then load into a fresh object: must reproduce every parameter
            bool onlyChanged = g.coin(); std::string fn = tmpdir + "/p" + std::to_string(e) + "_" + std::to_string(step) + ".set";
            pending() = "save/load";
            bool ok = s->saveSettingsFile(fn.c_str(), onlyChanged);
            SoPlex f; f.setIntParam(SoPlex::VERBOSITY, 0);
            bool ok2 = f.loadSettingsFile(fn.c_str());
            f.setIntParam(SoPlex::VERBOSITY, 0);
            J ev; ev.s("a", "saveload").b("onlyChanged", onlyChanged).b("ret", ok && ok2).raw("loaded", allVals(f)); emit(*s, ev);
            remove(fn.c_str());
         }
         else if(k < 93 && g_fuzz)
         {
            // C13: a settings file with arbitrary content
            std::string fn = tmpdir + "/f" + std::to_string(e) + "_" + std::to_string(step) + ".set"; s->saveSettingsFile(fn.c_str(), g.coin());
            std::ifstream f(fn, std::ios::binary); std::stringstream ss; ss << f.rdbuf(); std::string what = "none", text = ss.str(); if(g.coin(4, 5)) text = mutateText(g, text, what);
            { FILE* o = fopen(fn.c_str(), "wb"); if(o) { fwrite(text.data(), 1, text.size(), o); fclose(o); } }
            pending() = "loadSettingsFile " + what; alarm(10); bool ret = s->loadSettingsFile(fn.c_str()); alarm(0); s->setIntParam(SoPlex::VERBOSITY, 0);
            J ev; ev.s("a", "fuzzload").s("mutation", what).b("ret", ret); emit(*s, ev); remove(fn.c_str());
         }
         else if(k < 95) { pending() = "reset"; s->resetSettings(true); s->setIntParam(SoPlex::VERBOSITY, 0); J ev; ev.s("a", "reset"); emit(*s, ev); }
         else
         {
            // setSettings(other.settings()) into a fresh object and copy construction
            pending() = "setSettings";
            SoPlex f; bool ret = f.setSettings(s->settings()); SoPlex cpy(*s);
            J ev; ev.s("a", "copySettings").b("ret", ret).raw("viaSetSettings", allVals(f)).raw("viaCopy", allVals(cpy)); emit(*s, ev);
         }
      }
   }
}

int main(int argc, char** argv)
{
   if(argc < 6) { fprintf(stderr, "usage: params_drv <workload> <seed> <nexec> <len> <out>\n"); return 2; }
   unsigned long seed = strtoul(argv[2], nullptr, 10); int nexec = atoi(argv[3]), len = atoi(argv[4]);
   T().open(argv[5]); setvbuf(T().f, nullptr, _IOLBF, 1 << 16); installCrashHandlers();
   Rng g(seed); g_fuzz = std::string(argv[1]) == "fuzz";
   std::string tmpdir = std::string(argv[5]) + ".d"; std::string cmd = "mkdir -p '" + tmpdir + "'"; if(system(cmd.c_str()) != 0) return 2;
   run(g, nexec, len, tmpdir);
   cmd = "rm -rf '" + tmpdir + "'"; (void)!system(cmd.c_str());
   T().close(); return 0;
}
