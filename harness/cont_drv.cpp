// C19 driver: random (and TLC-scripted) operation sequences on the elementary containers and sparse vectors.
// One NDJSON event per public call; "st" is the complete abstract value read back through public accessors,
// "probe" the answers of the lookup functions for every key / name / index ever used.  Validated by spec/TV_Containers.tla.
//   cont_drv <family> <seed> <nexec> <len> <out.ndjson>        family: keyed | seq | bag | list | map | vec | script
#include "soplex.h"
#include "soplex/dataset.h"
#include "soplex/classset.h"
#include "soplex/datahashtable.h"
#include "soplex/idlist.h"
#include "soplex/islist.h"
#include "vt.h"
#include <memory>
#include <map>
#include <set>
#include <sys/wait.h>
#include <signal.h>
using namespace soplex;
using namespace vt;


// a non-trivially copyable element type for ClassSet / ClassArray / Array
// (copy-only: ClassSet::operator= and reMax() std::move their elements, also out of a const source; the class is only used with
//  SVSetBase::DLPSV, whose move assignment is a shallow copy; an element type with a stealing move would lose the source - see DESIGN.md)
struct Val { int v = 0; std::vector<int> pad; Val() {} explicit Val(int x) : v(x), pad((size_t)(x & 3) + 1, x) {} Val(const Val& o) : v(o.v), pad(o.pad) {} Val& operator=(const Val& o) { v = o.v; pad = o.pad; return *this; } bool ok() const { for(int p : pad) if(p != v) return false; return pad.size() == (size_t)(v & 3) + 1 || (v == 0 && pad.empty()); } };

static int g_nextId = 0;

// ------------------------------------------------------------------------------------------------ keyed sets
struct KeyedBase
{
   int id; std::set<int> everKeys; std::set<std::string> everNames;
   virtual ~KeyedBase() {}
   virtual const char* kind() const = 0;
   virtual int num() const = 0;
   virtual int keyOf(int i) const = 0;                  // DataKey::idx
   virtual std::string valOf(int i) const = 0;          // JSON
   virtual bool hasKey(int k) const = 0;
   virtual int numberOfKey(int k) const = 0;
   virtual std::string add(Rng& g, int n, std::vector<int>& keys) = 0;   // returns JSON array of values added
   virtual void removeNum(int i) = 0;
   virtual void removeKey(int k) = 0;
   virtual void removePerm(int* perm) = 0;
   virtual void removeNums(const int* nums, int n, int* perm) = 0;
   virtual void removeKeys(const std::vector<int>& keys, int* perm) = 0;
   virtual bool canPermKeys() const { return true; }
   virtual void clear() = 0;
   virtual std::string noop(Rng& g) = 0;
   virtual std::string setval(Rng& g, int i) { return ""; }
   virtual KeyedBase* copy(bool assign) const = 0;
   virtual bool consistent() const = 0;
   virtual std::string nprobe() const { return ""; }
   virtual bool addDup(Rng& g, std::string& v) { return false; }
   std::string st() const { return jarr(num(), [&](int i) { return "{\"k\":" + std::to_string(keyOf(i)) + ",\"v\":" + valOf(i) + "}"; }); }
   std::string probe() const { std::vector<int> ks(everKeys.begin(), everKeys.end());
      return jarr((int)ks.size(), [&](int i) { bool h = hasKey(ks[i]); return "{\"k\":" + std::to_string(ks[i]) + ",\"has\":" + (h ? "true" : "false") + ",\"num\":" + std::to_string(h ? numberOfKey(ks[i]) : -1) + "}"; }); }
   void emit(J& ev) { ev.i("c", id).raw("st", st()).raw("probe", probe()).b("consistent", consistent()); std::string np = nprobe(); if(!np.empty()) ev.raw("nprobe", np); T().line(ev.str()); }
};
static DataKey mk(int idx) { DataKey k; k.info = 0; k.idx = idx; return k; }

template <class SET, class ELEM> struct PlainKeyed : KeyedBase
{
   SET s; const char* nm; int ctr = 100;
   explicit PlainKeyed(const char* n, int pmax) : s(pmax), nm(n) {}
   const char* kind() const override { return nm; }
   int num() const override { return s.num(); }
   int keyOf(int i) const override { return s.key(i).idx; }
   static int iv(const int& e) { return e; } static int iv(const Val& e) { return e.ok() ? e.v : -999; }
   static void mkv(int& e, int x) { e = x; } static void mkv(Val& e, int x) { e = Val(x); }
   std::string valOf(int i) const override { return std::to_string(iv(s[i])); }
   bool hasKey(int k) const override { return s.has(mk(k)); }
   int numberOfKey(int k) const override { return s.number(mk(k)); }
   std::string add(Rng& g, int n, std::vector<int>& keys) override
   {
      std::vector<ELEM> items((size_t)n); std::vector<DataKey> nk((size_t)n); for(int i = 0; i < n; i++) mkv(items[(size_t)i], ctr++);
      int how = g.R(0, 3);
      if(s.num() + n > s.max()) s.reMax(s.num() + n + g.R(0, 3));            // documented precondition: the caller provides the capacity
      if(n == 1 && how < 2) { if(how == 0) s.add(nk[0], items[0]); else { ELEM* e = s.create(nk[0]); *e = items[0]; } }
      else if(how == 3)
      {
         // add a whole set
         SET other(4); for(int i = 0; i < n; i++) other.add(items[(size_t)i]);
         s.add(nk.data(), other);
      }
      else s.add(nk.data(), items.data(), n);
      for(int i = 0; i < n; i++) keys.push_back(nk[(size_t)i].idx);
      return jarr(n, [&](int i) { return std::to_string(iv(items[(size_t)i])); });
   }
   void removeNum(int i) override { s.remove(i); }
   void removeKey(int k) override { s.remove(mk(k)); }
   void removePerm(int* perm) override { s.remove(perm); }
   void removeNums(const int* nums, int n, int* perm) override { if(perm) s.remove(nums, n, perm); else s.remove(nums, n); }
   void removeKeys(const std::vector<int>& keys, int* perm) override { std::vector<DataKey> k; for(int x : keys) k.push_back(mk(x)); if(perm) s.remove(k.data(), (int)k.size(), perm); else s.remove(k.data(), (int)k.size()); }
   void clear() override { s.clear(); }
   std::string noop(Rng& g) override { int m = s.num() + g.R(0, 20); s.reMax(g.coin() ? m : 0); return "reMax"; }
   std::string setval(Rng& g, int i) override { int x = ctr++; if(g.coin()) mkv(s[i], x); else mkv(s[s.key(i)], x); return std::to_string(x); }
   KeyedBase* copy(bool assign) const override { auto* c = assign ? new PlainKeyed<SET, ELEM>(nm, 2) : nullptr;
      if(assign) { c->s = s; } else { c = (PlainKeyed<SET, ELEM>*)operator new(sizeof(PlainKeyed<SET, ELEM>)); new(c) PlainKeyed<SET, ELEM>(*this); }
      c->ctr = ctr + 1000; return c; }
   bool consistent() const override { return s.isConsistent(); }
};

template <class R> static std::string rstr(const R& v);
template <> std::string rstr<double>(const double& v) { return qdraw(v); }
template <> std::string rstr<Rational>(const Rational& v) { return qmpq(v.backend().data()); }
template <class R> static std::string svJson(const SVectorBase<R>& v)
{
   std::vector<std::pair<int, std::string>> e; for(int k = 0; k < v.size(); k++) e.push_back({v.index(k), rstr<R>(v.value(k))}); return jsp(e);
}
template <class R> static DSVectorBase<R> randSV(Rng& g, int dim, int maxnz)
{
   DSVectorBase<R> v; std::set<int> used; int n = g.R(0, maxnz);
   for(int k = 0; k < n; k++) { int i = g.R(0, dim - 1); if(used.insert(i).second) { int x = g.R(-4, 4); if(x == 0) x = 5; v.add(i, R(x)); } }
   return v;
}
template <class R> struct SVKeyed : KeyedBase
{
   SVSetBase<R> s; const char* nm;
   explicit SVKeyed(const char* n) : s(g_small ? 2 : -1, g_small ? 4 : -1), nm(n) {}
   static bool g_small;
   const char* kind() const override { return nm; }
   int num() const override { return s.num(); }
   int keyOf(int i) const override { return s.key(i).idx; }
   std::string valOf(int i) const override { return svJson<R>(s[i]); }
   bool hasKey(int k) const override { return s.has(mk(k)); }
   int numberOfKey(int k) const override { return s.number(mk(k)); }
   std::string add(Rng& g, int n, std::vector<int>& keys) override
   {
      std::vector<DSVectorBase<R>> vs; for(int i = 0; i < n; i++) vs.push_back(randSV<R>(g, 6, 4));
      std::vector<DataKey> nk((size_t)n); int how = g.R(0, 3);
      if(n == 1 && how == 0) s.add(nk[0], vs[0]);
      else if(n == 1 && how == 1)
      {
         // create + fill in place
         SVectorBase<R>* p = s.create(nk[0], vs[0].size() + g.R(0, 2)); for(int k = 0; k < vs[0].size(); k++) p->add(vs[0].index(k), vs[0].value(k));
      }
      else if(how == 2)
      {
         std::vector<SVectorBase<R>> arr; arr.reserve((size_t)n); for(int i = 0; i < n; i++) arr.push_back(vs[(size_t)i]);
         s.add(nk.data(), arr.data(), n);
      }
      else { SVSetBase<R> other; for(int i = 0; i < n; i++) other.add(vs[(size_t)i]); s.add(nk.data(), other); }
      for(int i = 0; i < n; i++) keys.push_back(nk[(size_t)i].idx);
      return jarr(n, [&](int i) { return svJson<R>(vs[(size_t)i]); });
   }
   void removeNum(int i) override { if(i & 1) s.remove(i); else s.remove(&s[i]); }
   void removeKey(int k) override { s.remove(mk(k)); }
   void removePerm(int* perm) override { s.remove(perm); }
   void removeNums(const int* nums, int n, int* perm) override { if(perm) s.remove(nums, n, perm); else s.remove(nums, n); }
   void removeKeys(const std::vector<int>& keys, int* perm) override { std::vector<DataKey> k; for(int x : keys) k.push_back(mk(x)); if(perm) s.remove(k.data(), (int)k.size(), perm); else s.remove(k.data(), (int)k.size()); }
   void clear() override { s.clear(); }
   std::string noop(Rng& g) override
   {
      switch(g.R(0, 3)) { case 0: s.memPack(); return "memPack"; case 1: s.memRemax(s.memSize() + g.R(0, 30)); return "memRemax"; case 2: s.reMax(s.num() + g.R(0, 10)); return "reMax";
                          default: if(s.num() > 0) { int i = g.R(0, s.num() - 1); s.xtend(s[i], s[i].max() + g.R(1, 5)); } return "xtend"; }
   }
   std::string setval(Rng& g, int i) override
   {
      // extend one vector in place by new nonzeros (add2 makes room itself) or clear it
      if(g.coin(1, 4)) { s[i].clear(); return "[]"; }
      std::set<int> used; for(int k = 0; k < s[i].size(); k++) used.insert(s[i].index(k));
      int n = g.R(1, 3); std::vector<int> idx; std::vector<R> val;
      for(int k = 0; k < n; k++) { int j = g.R(6, 11); if(used.insert(j).second) { idx.push_back(j); val.push_back(R(g.R(1, 4))); } }
      if(idx.size() == 1 && g.coin()) s.add2(s[i], idx[0], val[0]); else s.add2(s[i], (int)idx.size(), idx.data(), val.data());
      return svJson<R>(s[i]);
   }
   KeyedBase* copy(bool assign) const override { auto* c = new SVKeyed<R>(nm); if(assign) c->s = s; else { c->~SVKeyed<R>(); new(c) SVKeyed<R>(*this); } return c; }
   bool consistent() const override { return s.isConsistent(); }
};
template <class R> bool SVKeyed<R>::g_small = false;

struct RowKeyed : KeyedBase
{
   LPRowSetBase<double> s; bool cols;
   const char* kind() const override { return "LPRowSet"; }
   int num() const override { return s.num(); }
   int keyOf(int i) const override { return s.key(i).idx; }
   std::string valOf(int i) const override { return "{\"lhs\":" + jq(qdraw(s.lhs(i))) + ",\"rhs\":" + jq(qdraw(s.rhs(i))) + ",\"obj\":" + jq(qdraw(s.obj(i))) + ",\"vec\":" + svJson<double>(s.rowVector(i)) + "}"; }
   bool hasKey(int k) const override { return s.has(mk(k)); }
   int numberOfKey(int k) const override { return s.number(mk(k)); }
   std::string add(Rng& g, int n, std::vector<int>& keys) override
   {
      std::vector<LPRowBase<double>> rows; for(int i = 0; i < n; i++) { double l = g.R(-5, 0), r = l + g.R(0, 5); LPRowBase<double> row(l, randSV<double>(g, 6, 4), r); row.setObj(g.R(-2, 2)); rows.push_back(row); }
      std::vector<DataKey> nk((size_t)n);
      if(n == 1 && g.coin()) s.add(nk[0], rows[0]);
      else if(n == 1) { s.add(nk[0], rows[0].lhs(), rows[0].rowVector(), rows[0].rhs(), rows[0].obj()); }
      else { LPRowSetBase<double> other; for(auto& r : rows) other.add(r); s.add(nk.data(), other); }
      for(int i = 0; i < n; i++) keys.push_back(nk[(size_t)i].idx);
      return jarr(n, [&](int i) { auto& r = rows[(size_t)i]; return "{\"lhs\":" + jq(qdraw(r.lhs())) + ",\"rhs\":" + jq(qdraw(r.rhs())) + ",\"obj\":" + jq(qdraw(r.obj())) + ",\"vec\":" + svJson<double>(r.rowVector()) + "}"; });
   }
   void removeNum(int i) override { s.remove(i); }
   void removeKey(int k) override { s.remove(mk(k)); }
   void removePerm(int* perm) override { s.remove(perm); }
   void removeNums(const int* nums, int n, int* perm) override { if(perm) s.remove(nums, n, perm); else s.remove(nums, n); }
   void removeKeys(const std::vector<int>& keys, int* perm) override { std::vector<int> nums; for(int k : keys) nums.push_back(s.number(mk(k))); removeNums(nums.data(), (int)nums.size(), perm); }
   void clear() override { s.clear(); }
   std::string noop(Rng& g) override
   {
      switch(g.R(0, 3)) { case 0: s.memPack(); return "memPack"; case 1: s.memRemax(g.R(0, 60)); return "memRemax"; case 2: s.reMax(s.num() + g.R(0, 10)); return "reMax";
                          default: if(s.num() > 0) { int i = g.R(0, s.num() - 1); s.xtend(i, s.rowVector(i).max() + g.R(1, 5)); } return "xtend"; }
   }
   std::string setval(Rng& g, int i) override
   {
      int w = g.R(0, 3);
      if(w == 0) s.lhs_w(i) = -7; else if(w == 1) s.rhs_w(i) = 9; else if(w == 2) s.obj_w(i) = 3;
      else { std::set<int> used; for(int k = 0; k < s.rowVector(i).size(); k++) used.insert(s.rowVector(i).index(k)); int j = g.R(6, 11); if(!used.count(j)) { int idx[1] = {j}; double val[1] = {2.0}; s.add2(i, 1, idx, val); } }
      return valOf(i);
   }
   KeyedBase* copy(bool assign) const override { auto* c = new RowKeyed(); if(assign) c->s = s; else { c->~RowKeyed(); new(c) RowKeyed(*this); } return c; }
   bool consistent() const override { return s.isConsistent(); }
};
struct ColKeyed : KeyedBase
{
   LPColSetBase<double> s;
   const char* kind() const override { return "LPColSet"; }
   int num() const override { return s.num(); }
   int keyOf(int i) const override { return s.key(i).idx; }
   std::string valOf(int i) const override { return "{\"obj\":" + jq(qdraw(s.maxObj(i))) + ",\"lo\":" + jq(qdraw(s.lower(i))) + ",\"up\":" + jq(qdraw(s.upper(i))) + ",\"vec\":" + svJson<double>(s.colVector(i)) + "}"; }
   bool hasKey(int k) const override { return s.has(mk(k)); }
   int numberOfKey(int k) const override { return s.number(mk(k)); }
   std::string add(Rng& g, int n, std::vector<int>& keys) override
   {
      std::vector<LPColBase<double>> cols; for(int i = 0; i < n; i++) { double l = g.R(-5, 0), u = l + g.R(0, 5); cols.push_back(LPColBase<double>((double)g.R(-2, 2), randSV<double>(g, 6, 4), u, l)); }
      std::vector<DataKey> nk((size_t)n);
      if(n == 1 && g.coin()) s.add(nk[0], cols[0]);
      else if(n == 1) s.add(nk[0], cols[0].obj(), cols[0].lower(), cols[0].colVector(), cols[0].upper());
      else { LPColSetBase<double> other; for(auto& c : cols) other.add(c); s.add(nk.data(), other); }
      for(int i = 0; i < n; i++) keys.push_back(nk[(size_t)i].idx);
      return jarr(n, [&](int i) { auto& c = cols[(size_t)i]; return "{\"obj\":" + jq(qdraw(c.obj())) + ",\"lo\":" + jq(qdraw(c.lower())) + ",\"up\":" + jq(qdraw(c.upper())) + ",\"vec\":" + svJson<double>(c.colVector()) + "}"; });
   }
   void removeNum(int i) override { s.remove(i); }
   void removeKey(int k) override { s.remove(mk(k)); }
   void removePerm(int* perm) override { s.remove(perm); }
   void removeNums(const int* nums, int n, int* perm) override { if(perm) s.remove(nums, n, perm); else s.remove(nums, n); }
   void removeKeys(const std::vector<int>& keys, int* perm) override { std::vector<int> nums; for(int k : keys) nums.push_back(s.number(mk(k))); removeNums(nums.data(), (int)nums.size(), perm); }
   void clear() override { s.clear(); }
   std::string noop(Rng& g) override
   {
      switch(g.R(0, 3)) { case 0: s.memPack(); return "memPack"; case 1: s.memRemax(g.R(0, 60)); return "memRemax"; case 2: s.reMax(s.num() + g.R(0, 10)); return "reMax";
                          default: if(s.num() > 0) { int i = g.R(0, s.num() - 1); s.xtend(i, s.colVector(i).max() + g.R(1, 5)); } return "xtend"; }
   }
   std::string setval(Rng& g, int i) override
   {
      int w = g.R(0, 3);
      if(w == 0) s.lower_w(i) = -7; else if(w == 1) s.upper_w(i) = 9; else if(w == 2) s.maxObj_w(i) = 3;
      else { std::set<int> used; for(int k = 0; k < s.colVector(i).size(); k++) used.insert(s.colVector(i).index(k)); int j = g.R(6, 11); if(!used.count(j)) { int idx[1] = {j}; double val[1] = {2.0}; s.add2(i, 1, idx, val); } }
      return valOf(i);
   }
   KeyedBase* copy(bool assign) const override { auto* c = new ColKeyed(); if(assign) c->s = s; else { c->~ColKeyed(); new(c) ColKeyed(*this); } return c; }
   bool consistent() const override { return s.isConsistent(); }
};
struct NameKeyed : KeyedBase
{
   NameSet s; int ctr = 0;
   NameKeyed() : s(2, 8) {}                                       // tiny capacities: every few insertions reallocate
   const char* kind() const override { return "NameSet"; }
   int num() const override { return s.num(); }
   int keyOf(int i) const override { return s.key(i).idx; }
   std::string valOf(int i) const override { return jstr(s[i]); }
   bool hasKey(int k) const override { return s.has(mk(k)); }
   int numberOfKey(int k) const override { return s.number(mk(k)); }
   std::string fresh(Rng& g) { std::string n = (g.coin(1, 5) ? std::string("a_rather_long_name_to_fill_the_memory_block_") : std::string("n")) + std::to_string(ctr++); everNames.insert(n); return n; }
   std::string add(Rng& g, int n, std::vector<int>& keys) override
   {
      std::vector<std::string> names; for(int i = 0; i < n; i++) names.push_back(fresh(g));
      std::vector<DataKey> nk((size_t)n);
      if(n == 1) s.add(nk[0], names[0].c_str());
      else { NameSet other(2, 8); for(auto& x : names) other.add(x.c_str()); s.add(nk.data(), other); }
      for(int i = 0; i < n; i++) keys.push_back(nk[(size_t)i].idx);
      return jarr(n, [&](int i) { return jstr(names[(size_t)i]); });
   }
   bool addDup(Rng& g, std::string& v) override { if(s.num() == 0) return false; v = s[g.R(0, s.num() - 1)]; std::string copyOfName = v; s.add(copyOfName.c_str()); v = jstr(copyOfName); return true; }
   void removeNum(int i) override { if(i & 1) s.remove(i); else { std::string n = s[i]; s.remove(n.c_str()); } }
   void removeKey(int k) override { s.remove(mk(k)); }
   void removePerm(int* perm) override { s.remove(perm); }
   void removeNums(const int* nums, int n, int* perm) override { std::vector<int> v(nums, nums + n); std::sort(v.begin(), v.end()); std::reverse(v.begin(), v.end()); s.remove(v.data(), n); }   // removes one after the other
   void removeKeys(const std::vector<int>& keys, int* perm) override { std::vector<DataKey> k; for(int x : keys) k.push_back(mk(x)); s.remove(k.data(), (int)k.size()); }
   bool canPermKeys() const override { return false; }
   void clear() override { s.clear(); }
   std::string noop(Rng& g) override { switch(g.R(0, 2)) { case 0: s.memPack(); return "memPack"; case 1: s.memRemax(s.memSize() + g.R(0, 40)); return "memRemax"; default: s.reMax(s.num() + g.R(0, 10)); return "reMax"; } }
   KeyedBase* copy(bool) const override { return nullptr; }                 // NameSet is not copyable through its public interface
   bool consistent() const override { return s.isConsistent(); }
   std::string nprobe() const override { std::vector<std::string> ns(everNames.begin(), everNames.end());
      return jarr((int)ns.size(), [&](int i) { int n = s.number(ns[(size_t)i].c_str()); bool h = s.has(ns[(size_t)i].c_str()); return "{\"name\":" + jstr(ns[(size_t)i]) + ",\"num\":" + std::to_string(h ? n : (n < 0 ? -1 : -2)) + "}"; }); }
};

static KeyedBase* newKeyed(int which)
{
   KeyedBase* k;
   switch(which)
   {
   case 0: k = new PlainKeyed<DataSet<int>, int>("DataSet", 2); break;
   case 1: k = new PlainKeyed<ClassSet<Val>, Val>("ClassSet", 2); break;
   case 2: k = new SVKeyed<double>("SVSet"); break;
   case 3: k = new SVKeyed<Rational>("SVSetRational"); break;
   case 4: k = new RowKeyed(); break;
   case 5: k = new ColKeyed(); break;
   default: k = new NameKeyed(); break;
   }
   k->id = g_nextId++;
   return k;
}
static void keyedStep(Rng& g, std::vector<std::unique_ptr<KeyedBase>>& objs, int which, int op)
{
   KeyedBase& c = *objs[(size_t)g.R(0, (int)objs.size() - 1)]; int n = c.num();
   if(op < 30)
   {
      int cnt = g.coin(2, 3) ? 1 : g.R(2, 4); std::vector<int> keys; pending() = std::string(c.kind()) + " add";
      std::string vals = c.add(g, cnt, keys); for(int k : keys) c.everKeys.insert(k);
      J ev; ev.s("a", "kadd").raw("vals", vals).raw("keys", jints(keys)); c.emit(ev);
   }
   else if(op < 33) { std::string v; pending() = "addDup"; if(c.addDup(g, v)) { J ev; ev.s("a", "kaddDup").raw("v", v); c.emit(ev); } }
   else if(op < 45) { if(n == 0) return; int i = g.R(0, n - 1); pending() = std::string(c.kind()) + " remove(num)"; c.removeNum(i); J ev; ev.s("a", "kremove").i("i", i).s("how", "num"); c.emit(ev); }
   else if(op < 52) { if(n == 0) return; int i = g.R(0, n - 1); int k = c.keyOf(i); pending() = std::string(c.kind()) + " remove(key)"; c.removeKey(k); J ev; ev.s("a", "kremove").i("i", i).s("how", "key"); c.emit(ev); }
   else if(op < 72)
   {
      if(n == 0) return;
      std::vector<int> sel; for(int i = 0; i < n; i++) if(g.coin(1, 3)) sel.push_back(i);
      int how = g.R(0, 2); bool wantPerm = g.coin() && (how == 0 || c.canPermKeys() || how == 1); std::vector<int> perm((size_t)n, 0);
      std::string hows;
      if(how == 0) { for(int i = 0; i < n; i++) perm[(size_t)i] = g.R(0, 9); for(int i : sel) perm[(size_t)i] = -1 - g.R(0, 2); pending() = std::string(c.kind()) + " remove(perm)"; c.removePerm(perm.data()); wantPerm = true; hows = "perm"; }
      else if(how == 1) { std::vector<int> nums = sel; std::shuffle(nums.begin(), nums.end(), g.g); nums.push_back(0); pending() = std::string(c.kind()) + " remove(nums)";
                          if(std::string(c.kind()) == "NameSet") wantPerm = false; c.removeNums(nums.data(), (int)sel.size(), wantPerm ? perm.data() : nullptr); hows = "nums"; }
      else { std::vector<int> keys; for(int i : sel) keys.push_back(c.keyOf(i)); std::shuffle(keys.begin(), keys.end(), g.g); pending() = std::string(c.kind()) + " remove(keys)";
             if(!c.canPermKeys()) wantPerm = false; c.removeKeys(keys, wantPerm ? perm.data() : nullptr); hows = "keys"; }
      J ev; ev.s("a", "kremoveMany").s("how", hows).raw("sel", jints(sel)).raw("perm", wantPerm ? jints(perm) : "[]"); c.emit(ev);
   }
   else if(op < 75) { pending() = std::string(c.kind()) + " clear"; c.clear(); J ev; ev.s("a", "clear"); c.emit(ev); }
   else if(op < 85) { pending() = std::string(c.kind()) + " capacity"; std::string w = c.noop(g); J ev; ev.s("a", "noop").s("what", w); c.emit(ev); }
   else if(op < 92) { if(n == 0) return; int i = g.R(0, n - 1); pending() = std::string(c.kind()) + " setval"; std::string v = c.setval(g, i); if(v.empty()) return; J ev; ev.s("a", "kset").i("i", i).raw("v", v); c.emit(ev); }
   else
   {
      bool assign = g.coin(); pending() = std::string(c.kind()) + (assign ? " operator=" : " copy ctor");
      std::unique_ptr<KeyedBase> d(c.copy(assign)); if(!d) return; d->id = g_nextId++; d->everKeys = c.everKeys; d->everNames = c.everNames;
      J ev; ev.s("a", assign ? "assign" : "copy").i("src", c.id).raw("srcSt", c.st()); d->emit(ev);
      if(objs.size() >= 3) { size_t victim = (size_t)g.R(0, (int)objs.size() - 1); J dv; dv.s("a", "destroy").i("c", objs[victim]->id); T().line(dv.str()); objs.erase(objs.begin() + (long)victim); }
      objs.push_back(std::move(d));
   }
}
static void runKeyed(Rng& g, int len)
{
   T().line("{\"a\":\"Reset\"}"); g_nextId = 0;
   int which = g.R(0, 6); SVKeyed<double>::g_small = SVKeyed<Rational>::g_small = g.coin();
   std::vector<std::unique_ptr<KeyedBase>> objs; objs.emplace_back(newKeyed(which));
   { J ev; ev.s("a", "new").s("fam", "keyed").s("kind", objs[0]->kind()); objs[0]->emit(ev); }
   for(int step = 0; step < len; step++) keyedStep(g, objs, which, g.R(0, 99));
}

// ------------------------------------------------------------------------------------------------ sequences
struct SeqBase
{
   int id; virtual ~SeqBase() {} virtual const char* kind() const = 0; virtual int size() const = 0; virtual int at(int i) const = 0;
   virtual void append(const std::vector<int>& v, int how) = 0; virtual void insert(int i, const std::vector<int>& v, int how) = 0; virtual void remove(int i, int n) = 0;
   virtual void removeLast(int n) = 0; virtual void clear() = 0; virtual void reSize(int n) = 0; virtual void reMax(int n) = 0; virtual void set(int i, int v) = 0; virtual SeqBase* copy(bool assign) const = 0; virtual bool consistent() const = 0;
   std::string st() const { return jarr(size(), [&](int i) { return std::to_string(at(i)); }); }
   void emit(J& ev) { ev.i("c", id).raw("st", st()).b("consistent", consistent()); T().line(ev.str()); }
};
struct SeqDA : SeqBase
{
   DataArray<int> a; SeqDA() : a(0, 1) {}
   const char* kind() const override { return "DataArray"; } int size() const override { return a.size(); } int at(int i) const override { return a[i]; }
   void append(const std::vector<int>& v, int how) override { if(v.size() == 1 && how == 0) a.append(v[0]); else if(how == 1) { DataArray<int> o(0, 1); for(int x : v) o.append(x); a.append(o); } else a.append((int)v.size(), v.data()); }
   void insert(int i, const std::vector<int>& v, int how) override { if(how == 1) { DataArray<int> o(0, 1); for(int x : v) o.append(x); a.insert(i, o); } else if(how == 2) { a.insert(i, (int)v.size()); for(size_t k = 0; k < v.size(); k++) a[i + (int)k] = v[k]; } else a.insert(i, (int)v.size(), v.data()); }
   void remove(int i, int n) override { a.remove(i, n); } void removeLast(int n) override { a.removeLast(n); } void clear() override { a.clear(); } void reSize(int n) override { a.reSize(n); } void reMax(int n) override { a.reMax(n); }
   void set(int i, int v) override { a[i] = v; } SeqBase* copy(bool assign) const override { auto* c = new SeqDA(); if(assign) c->a = a; else { c->~SeqDA(); new(c) SeqDA(*this); } return c; } bool consistent() const override { return a.isConsistent(); }
};
struct SeqCA : SeqBase
{
   ClassArray<Val> a; SeqCA() : a(0, 1) {}
   const char* kind() const override { return "ClassArray"; } int size() const override { return a.size(); } int at(int i) const override { return a[i].ok() ? a[i].v : -999; }
   static std::vector<Val> mkv(const std::vector<int>& v) { std::vector<Val> r; for(int x : v) r.push_back(Val(x)); return r; }
   void append(const std::vector<int>& v, int how) override { auto w = mkv(v); if(v.size() == 1 && how == 0) a.append(w[0]); else if(how == 1) { ClassArray<Val> o(0, 1); for(auto& x : w) o.append(x); a.append(o); } else a.append((int)w.size(), w.data()); }
   void insert(int i, const std::vector<int>& v, int how) override { auto w = mkv(v); if(how == 1) { ClassArray<Val> o(0, 1); for(auto& x : w) o.append(x); a.insert(i, o); } else if(how == 2) { a.insert(i, (int)w.size()); for(size_t k = 0; k < w.size(); k++) a[i + (int)k] = w[k]; } else a.insert(i, (int)w.size(), w.data()); }
   void remove(int i, int n) override { a.remove(i, n); } void removeLast(int n) override { a.removeLast(n); } void clear() override { a.clear(); } void reSize(int n) override { int o = a.size(); a.reSize(n); for(int i = o; i < n; i++) a[i] = Val(0); } void reMax(int n) override { a.reMax(n); }
   void set(int i, int v) override { a[i] = Val(v); } SeqBase* copy(bool assign) const override { auto* c = new SeqCA(); if(assign) c->a = a; else { c->~SeqCA(); new(c) SeqCA(*this); } return c; } bool consistent() const override { return a.isConsistent(); }
};
struct SeqAR : SeqBase
{
   Array<Val> a;
   const char* kind() const override { return "Array"; } int size() const override { return a.size(); } int at(int i) const override { return a[i].ok() ? a[i].v : -999; }
   void append(const std::vector<int>& v, int how) override { auto w = SeqCA::mkv(v); if(v.size() == 1 && how == 0) a.append(w[0]); else if(how == 1) { Array<Val> o; for(auto& x : w) o.append(x); a.append(o); } else a.append((int)w.size(), w.data()); }
   void insert(int i, const std::vector<int>& v, int how) override { auto w = SeqCA::mkv(v); if(how == 1) { Array<Val> o; for(auto& x : w) o.append(x); a.insert(i, o); } else if(how == 2) { a.insert(i, (int)w.size()); for(size_t k = 0; k < w.size(); k++) a[i + (int)k] = w[k]; } else a.insert(i, (int)w.size(), w.data()); }
   void remove(int i, int n) override { a.remove(i, n); } void removeLast(int n) override { a.remove(a.size() - n, n); } void clear() override { a.clear(); } void reSize(int n) override { int o = a.size(); a.reSize(n); for(int i = o; i < n; i++) a[i] = Val(0); } void reMax(int) override {}
   void set(int i, int v) override { a[i] = Val(v); } SeqBase* copy(bool assign) const override { auto* c = new SeqAR(); if(assign) c->a = a; else { c->~SeqAR(); new(c) SeqAR(*this); } return c; } bool consistent() const override { return a.isConsistent(); }
};
static void runSeq(Rng& g, int len)
{
   T().line("{\"a\":\"Reset\"}"); g_nextId = 0; int which = g.R(0, 2); int ctr = 1;
   auto mkNew = [&]() -> SeqBase* { SeqBase* s = which == 0 ? (SeqBase*)new SeqDA() : which == 1 ? (SeqBase*)new SeqCA() : (SeqBase*)new SeqAR(); s->id = g_nextId++; return s; };
   std::vector<std::unique_ptr<SeqBase>> objs; objs.emplace_back(mkNew());
   { J ev; ev.s("a", "new").s("fam", "seq").s("kind", objs[0]->kind()); objs[0]->emit(ev); }
   for(int step = 0; step < len; step++)
   {
      SeqBase& c = *objs[(size_t)g.R(0, (int)objs.size() - 1)]; int n = c.size(); int op = g.R(0, 99);
      auto vals = [&](int k) { std::vector<int> v; for(int i = 0; i < k; i++) v.push_back(ctr++); return v; };
      if(op < 25) { auto v = vals(g.coin(2, 3) ? 1 : g.R(2, 5)); pending() = std::string(c.kind()) + " append"; c.append(v, g.R(0, 2)); J ev; ev.s("a", "sappend").raw("vals", jints(v)); c.emit(ev); }
      else if(op < 45) { auto v = vals(g.R(1, 4)); int i = g.R(0, n); pending() = std::string(c.kind()) + " insert"; c.insert(i, v, g.R(0, 2)); J ev; ev.s("a", "sinsert").i("i", i).raw("vals", jints(v)); c.emit(ev); }
      else if(op < 62) { if(n == 0) continue; int i = g.R(0, n - 1), m = g.R(1, std::min(3, n - i)); pending() = std::string(c.kind()) + " remove"; c.remove(i, m); J ev; ev.s("a", "sremove").i("i", i).i("n", m); c.emit(ev); }
      else if(op < 68) { if(n == 0) continue; int m = g.R(0, std::min(3, n)); pending() = std::string(c.kind()) + " removeLast"; c.removeLast(m); J ev; ev.s("a", "sremove").i("i", n - m).i("n", m); c.emit(ev); }
      else if(op < 71) { pending() = std::string(c.kind()) + " clear"; c.clear(); J ev; ev.s("a", "clear"); c.emit(ev); }
      else if(op < 79) { int m = g.R(0, n + 4); pending() = std::string(c.kind()) + " reSize"; c.reSize(m); J ev; ev.s("a", "sresize").i("n", m); c.emit(ev); }
      else if(op < 86) { pending() = std::string(c.kind()) + " reMax"; c.reMax(n + g.R(0, 30)); J ev; ev.s("a", "noop").s("what", "reMax"); c.emit(ev); }
      else if(op < 92) { if(n == 0) continue; int i = g.R(0, n - 1), v = ctr++; c.set(i, v); J ev; ev.s("a", "sset").i("i", i).i("v", v); c.emit(ev); }
      else
      {
         bool assign = g.coin(); pending() = std::string(c.kind()) + " copy"; std::unique_ptr<SeqBase> d(c.copy(assign)); d->id = g_nextId++;
         J ev; ev.s("a", assign ? "assign" : "copy").i("src", c.id).raw("srcSt", c.st()); d->emit(ev);
         if(objs.size() >= 3) { size_t victim = (size_t)g.R(0, (int)objs.size() - 1); J dv; dv.s("a", "destroy").i("c", objs[victim]->id); T().line(dv.str()); objs.erase(objs.begin() + (long)victim); }
         objs.push_back(std::move(d));
      }
   }
}

// ------------------------------------------------------------------------------------------------ bags: IdxSet (through DIdxSet, which owns memory) and DIdxSet
static void runBag(Rng& g, int len)
{
   T().line("{\"a\":\"Reset\"}"); g_nextId = 0;
   DIdxSet s(2); int id = g_nextId++; std::set<int> ever; bool viaBase = g.coin();
   auto emit = [&](J& ev) { ev.i("c", id).raw("st", jarr(s.size(), [&](int i) { return std::to_string(s.index(i)); })).i("dim", s.dim());
      std::vector<int> e(ever.begin(), ever.end()); ev.raw("probe", jarr((int)e.size(), [&](int i) { return "{\"idx\":" + std::to_string(e[(size_t)i]) + ",\"pos\":" + std::to_string(s.pos(e[(size_t)i])) + "}"; })); T().line(ev.str()); };
   { J ev; ev.s("a", "new").s("fam", "bag").s("kind", "DIdxSet"); emit(ev); }
   for(int step = 0; step < len; step++)
   {
      int n = s.size(), op = g.R(0, 99);
      auto fresh = [&]() { int x; do x = g.R(0, 60); while(s.pos(x) >= 0); return x; };
      if(op < 35) { int k = g.coin(2, 3) ? 1 : g.R(2, 4); std::vector<int> v; for(int i = 0; i < k; i++) { int x; do x = fresh(); while(std::find(v.begin(), v.end(), x) != v.end()); v.push_back(x); ever.insert(x); }
                    pending() = "DIdxSet add";
                    if(k == 1 && g.coin()) s.addIdx(v[0]); else if(g.coin()) s.add(k, v.data()); else { DIdxSet o(k); for(int x : v) o.addIdx(x); if(viaBase) s.add((const IdxSet&)o); else s.add(o); }
                    J ev; ev.s("a", "badd").raw("vals", jints(v)); emit(ev); }
      else if(op < 60) { if(n == 0) continue; int a = g.R(0, n - 1), b = g.R(a, std::min(n - 1, a + 3)); pending() = "IdxSet remove(n,m)"; if(a == b && g.coin()) s.remove(a); else s.remove(a, b); J ev; ev.s("a", "bremove").i("from", a).i("to", b); emit(ev); }
      else if(op < 64) { s.clear(); J ev; ev.s("a", "clear"); emit(ev); }
      else if(op < 75) { s.setMax(n + g.R(1, 20)); J ev; ev.s("a", "noop").s("what", "setMax"); emit(ev); }
      else if(op < 90) { DIdxSet c2(s); J ev; ev.s("a", "noop").s("what", "copy").b("copyEqual", c2.size() == s.size()); bool eq = c2.size() == s.size(); for(int i = 0; eq && i < s.size(); i++) eq = c2.index(i) == s.index(i); if(!eq) { J bad; bad.s("a", "Crash").s("what", "DIdxSet copy differs").s("during", "copy"); T().line(bad.str()); return; } s = c2; emit(ev); }
      else { DIdxSet c3(1); c3 = s; bool eq = c3.size() == s.size(); for(int i = 0; eq && i < s.size(); i++) eq = c3.index(i) == s.index(i); if(!eq) { J bad; bad.s("a", "Crash").s("what", "DIdxSet assignment differs").s("during", "assign"); T().line(bad.str()); return; } J ev; ev.s("a", "noop").s("what", "assign"); emit(ev); }
   }
}

// ------------------------------------------------------------------------------------------------ lists
struct DLE { int v; DLE* n = nullptr; DLE* p = nullptr; explicit DLE(int x = 0) : v(x) {} DLE*& next() { return n; } DLE* const& next() const { return n; } DLE*& prev() { return p; } DLE* const& prev() const { return p; } };
struct SLE { int v; SLE* n = nullptr; explicit SLE(int x = 0) : v(x) {} SLE*& next() { return n; } SLE* next() const { return n; } };
template <class LIST, class EL> static std::vector<int> bwd(LIST& L, std::true_type) { std::vector<int> v; for(EL* e = L.last(); e; e = L.prev(e)) v.push_back(e->v); return v; }
template <class LIST, class EL> static std::vector<int> bwd(LIST&, std::false_type) { return std::vector<int>(); }
template <class LIST, class EL, bool DOUBLY> static void runListT(Rng& g, int len, const char* kind)
{
   T().line("{\"a\":\"Reset\"}"); g_nextId = 0; int id = g_nextId++; int ctr = 1;
   std::vector<std::unique_ptr<EL>> pool; LIST L;
   auto fwd = [&]() { std::vector<int> v; for(EL* e = L.first(); e; e = L.next(e)) v.push_back(e->v); return v; };
   auto find = [&](int v) -> EL* { for(EL* e = L.first(); e; e = L.next(e)) if(e->v == v) return e; return nullptr; };
   auto emit = [&](J& ev) { auto f = fwd(); ev.i("c", id).raw("st", jints(f)).i("len", L.length()).i("first", L.first() ? L.first()->v : -1).i("last", L.last() ? L.last()->v : -1).b("consistent", L.isConsistent());
      if(DOUBLY) ev.raw("rev", jints(bwd<LIST, EL>(L, std::integral_constant<bool, DOUBLY>())));
      T().line(ev.str()); };
   { J ev; ev.s("a", "new").s("fam", "list").s("kind", kind); emit(ev); }
   auto mk = [&]() { pool.emplace_back(new EL(ctr++)); return pool.back().get(); };
   for(int step = 0; step < len; step++)
   {
      auto f = fwd(); int n = (int)f.size(), op = g.R(0, 99);
      if(op < 20) { EL* e = mk(); pending() = std::string(kind) + " append"; L.append(e); J ev; ev.s("a", "lop").s("op", "append").i("v", e->v); emit(ev); }
      else if(op < 35) { EL* e = mk(); pending() = std::string(kind) + " prepend"; L.prepend(e); J ev; ev.s("a", "lop").s("op", "prepend").i("v", e->v); emit(ev); }
      else if(op < 50) { if(n == 0) continue; EL* a = find(f[(size_t)g.R(0, n - 1)]); EL* e = mk(); pending() = std::string(kind) + " insert"; L.insert(e, a); J ev; ev.s("a", "lop").s("op", "insertAfter").i("after", a->v).i("v", e->v); emit(ev); }
      else if(op < 65) { if(n == 0) continue; EL* a = find(f[(size_t)g.R(0, n - 1)]); pending() = std::string(kind) + " remove"; int v = a->v; L.remove(a); J ev; ev.s("a", "lop").s("op", "remove").i("v", v); emit(ev); }
      else if(op < 75) { if(n < 2) continue; int p = g.R(0, n - 2); EL* a = find(f[(size_t)p]); pending() = std::string(kind) + " remove_next"; L.remove_next(a); J ev; ev.s("a", "lop").s("op", "removeNext").i("after", a->v); emit(ev); }
      else if(op < 85)
      {
         // splice another list in: append / prepend / insert after
         LIST M; std::vector<int> vs; int k = g.R(1, 3); for(int i = 0; i < k; i++) { EL* e = mk(); M.append(e); vs.push_back(e->v); }
         int how = g.R(0, 2); pending() = std::string(kind) + " splice";
         if(how == 0 || n == 0) { if(how == 1) { L.prepend(M); J ev; ev.s("a", "lop").s("op", "prependList").raw("vals", jints(vs)); emit(ev); } else { L.append(M); J ev; ev.s("a", "lop").s("op", "appendList").raw("vals", jints(vs)); emit(ev); } }
         else if(how == 1) { L.prepend(M); J ev; ev.s("a", "lop").s("op", "prependList").raw("vals", jints(vs)); emit(ev); }
         else { int p = g.R(0, n - 1); EL* a = find(f[(size_t)p]); L.insert(M, a); J ev; ev.s("a", "sinsert").i("i", p + 1).raw("vals", jints(vs)); emit(ev); }
      }
      else if(op < 93)
      {
         // remove a sub-list given as a list object holding a contiguous range
         if(n < 2) continue; int a = g.R(0, n - 2), b = g.R(a, std::min(n - 1, a + 2)); EL* ea = find(f[(size_t)a]); EL* eb = find(f[(size_t)b]);
         LIST sub(ea, eb); pending() = std::string(kind) + " remove(list)"; L.remove(sub); J ev; ev.s("a", "lop").s("op", "removeRange").i("from", f[(size_t)a]).i("to", f[(size_t)b]); emit(ev);
      }
      else { pending() = std::string(kind) + " find"; bool ok = true; int pos = 0; for(EL* e = L.first(); e; e = L.next(e), pos++) ok = ok && true; J ev; ev.s("a", "lop").s("op", "noop"); emit(ev); }
   }
   L.clear(false);
}
static void runList(Rng& g, int len) { if(g.coin()) runListT<IdList<DLE>, DLE, true>(g, len, "IdList"); else runListT<IsList<SLE>, SLE, false>(g, len, "IsList"); }

// ------------------------------------------------------------------------------------------------ hash table
static int hashInt(const int* k) { return (*k * 7919 + 13) & 0x7fffffff; }
static int hashBad(const int* k) { return (*k & 1); }                                // heavy collisions
static void runMap(Rng& g, int len)
{
   T().line("{\"a\":\"Reset\"}"); g_nextId = 0; int id = g_nextId++;
   bool bad = g.coin(1, 3);
   DataHashTable<int, int> h(bad ? hashBad : hashInt, 4, 0); std::set<int> ever; int ctr = 1000;
   auto emit = [&](DataHashTable<int, int>& t, J& ev) { std::vector<int> ks; for(int k : ever) if(t.has(k)) ks.push_back(k);
      ev.i("c", id).raw("st", jarr((int)ks.size(), [&](int i) { return "{\"k\":" + std::to_string(ks[(size_t)i]) + ",\"v\":" + std::to_string(t[ks[(size_t)i]]) + "}"; }));
      std::vector<int> e(ever.begin(), ever.end()); ev.raw("probe", jarr((int)e.size(), [&](int i) { const int* p = t.get(e[(size_t)i]); return "{\"k\":" + std::to_string(e[(size_t)i]) + ",\"has\":" + (t.has(e[(size_t)i]) ? "true" : "false") + ",\"v\":" + std::to_string(p ? *p : -1) + "}"; }));
      ev.b("consistent", t.isConsistent()); T().line(ev.str()); };
   { J ev; ev.s("a", "new").s("fam", "map").s("kind", "DataHashTable"); emit(h, ev); }
   for(int step = 0; step < len; step++)
   {
      int op = g.R(0, 99);
      if(op < 45) { int k; int tries = 0; do k = g.R(0, 40); while(h.has(k) && ++tries < 100); if(h.has(k)) continue; ever.insert(k); int v = ctr++; pending() = "DataHashTable add"; h.add(k, v); J ev; ev.s("a", "mop").s("op", "add").i("k", k).i("v", v); emit(h, ev); }
      else if(op < 75) { std::vector<int> ks; for(int k : ever) if(h.has(k)) ks.push_back(k); if(ks.empty()) continue; int k = ks[(size_t)g.R(0, (int)ks.size() - 1)]; pending() = "DataHashTable remove"; h.remove(k); J ev; ev.s("a", "mop").s("op", "remove").i("k", k).i("v", 0); emit(h, ev); }
      else if(op < 78) { h.clear(); J ev; ev.s("a", "clear"); emit(h, ev); }
      else if(op < 88) { pending() = "DataHashTable reMax"; h.reMax(g.coin() ? -1 : (int)ever.size() + g.R(1, 30)); J ev; ev.s("a", "mop").s("op", "noop").i("k", 0).i("v", 0); emit(h, ev); }
      else if(op < 94) { pending() = "DataHashTable copy"; DataHashTable<int, int> c(h); J ev; ev.s("a", "mop").s("op", "noop").i("k", 0).i("v", 0); emit(c, ev); }
      else { pending() = "DataHashTable assign"; DataHashTable<int, int> c(hashInt, 2, 0); c = h; J ev; ev.s("a", "mop").s("op", "noop").i("k", 0).i("v", 0); emit(c, ev); }
   }
}

// ------------------------------------------------------------------------------------------------ vectors
template <class R> static R rnum(Rng& g, bool frac);
template <> double rnum<double>(Rng& g, bool frac) { int x = g.R(-6, 6); return frac ? std::ldexp((double)x, g.R(-3, 3)) : (double)x; }
template <> Rational rnum<Rational>(Rng& g, bool frac) { int x = g.R(-6, 6); return frac ? Rational(x) / Rational(g.R(1, 7)) : Rational(x); }
template <class R> static std::string dj(const VectorBase<R>& v) { return jarr(v.dim(), [&](int i) { return jq(rstr<R>(v[i])); }); }
template <class R> static VectorBase<R> rdense(Rng& g, int n, int dens) { VectorBase<R> v(n); for(int i = 0; i < n; i++) v[i] = g.R(0, 99) < dens ? rnum<R>(g, g.coin()) : R(0); return v; }
template <class R> static DSVectorBase<R> toDS(const VectorBase<R>& v, Rng& g) { DSVectorBase<R> d(1); std::vector<int> idx; for(int i = 0; i < v.dim(); i++) if(v[i] != 0) idx.push_back(i); std::shuffle(idx.begin(), idx.end(), g.g); for(int i : idx) d.add(i, v[i]); return d; }
template <class R> static SSVectorBase<R> toSS(const VectorBase<R>& v, Rng& g, bool setup) { SSVectorBase<R> s(v.dim(), std::make_shared<Tolerances>()); if(setup) { std::vector<int> idx; for(int i = 0; i < v.dim(); i++) if(v[i] != 0) idx.push_back(i); std::shuffle(idx.begin(), idx.end(), g.g); for(int i : idx) s.setValue(i, v[i]); } else { s.unSetup(); for(int i = 0; i < v.dim(); i++) s.altValues()[i] = v[i]; } return s; }
template <class R> static VectorBase<R> fromSV(const SVectorBase<R>& s, int n) { VectorBase<R> v(n); v.clear(); for(int k = 0; k < s.size(); k++) v[s.index(k)] += s.value(k); return v; }
template <class R> static VectorBase<R> fromSS(const SSVectorBase<R>& s) { VectorBase<R> v(s.dim()); for(int i = 0; i < s.dim(); i++) v[i] = s[i]; return v; }
template <class R> static void vopEvent(const char* op, const std::string& types, const VectorBase<R>& x, const VectorBase<R>& y, const R& alpha, const VectorBase<R>* res, const R* val, int nnz = -1, const std::string& sorted = "")
{
   J ev; ev.s("a", "vop").s("op", op).s("types", types).raw("x", dj<R>(x)).raw("y", dj<R>(y)).s("alpha", rstr<R>(alpha));
   if(res) ev.raw("res", dj<R>(*res)); else ev.raw("res", "[]");
   ev.s("val", val ? rstr<R>(*val) : "nan"); if(nnz >= 0) ev.i("nnz", nnz); if(!sorted.empty()) ev.raw("sorted", sorted);
   T().line(ev.str());
}
template <class R> static void runVecT(Rng& g, int len, const char* tag)
{
   T().line("{\"a\":\"Reset\"}");
   std::string tg(tag);
   for(int step = 0; step < len; step++)
   {
      int n = g.R(1, 7); VectorBase<R> x = rdense<R>(g, n, g.R(20, 100)), y = rdense<R>(g, n, g.R(20, 100)); R alpha = rnum<R>(g, g.coin()); R zero(0);
      int op = g.R(0, 31);
      pending() = "vector op " + std::to_string(op) + " " + tg;
      switch(op)
      {
      case 0: { R v = x * y; vopEvent<R>("dot", "V*V" + tg, x, y, zero, nullptr, &v); break; }
      case 1: { DSVectorBase<R> sx = toDS(x, g); R v = y * sx; vopEvent<R>("dot", "V*SV" + tg, x, y, zero, nullptr, &v); break; }
      case 2: { DSVectorBase<R> sx = toDS(x, g), sy = toDS(y, g); sx.sort(); sy.sort(); R v = sx * sy;     /* merge product: needs sorted operands */ vopEvent<R>("dot", "SV*SV" + tg, x, y, zero, nullptr, &v); break; }
      case 3: { SSVectorBase<R> sx = toSS(x, g, g.coin()); R v = y * sx; vopEvent<R>("dot", "V*SSV" + tg, x, y, zero, nullptr, &v); break; }
      case 4: { SSVectorBase<R> sx = toSS(x, g, false), sy = toSS(y, g, false); sx.setup(); sy.setup(); R v = sx * sy;     /* needs index sets in increasing order, as setup() produces */ vopEvent<R>("dot", "SSV*SSV" + tg, x, y, zero, nullptr, &v); break; }
      case 5: { DSVectorBase<R> sx = toDS(x, g); R v = sx * y; vopEvent<R>("dot", "SV*V" + tg, x, y, zero, nullptr, &v); break; }
      case 6: { VectorBase<R> r = y; r += x; vopEvent<R>("add", "V+=V" + tg, x, y, zero, &r, nullptr); break; }
      case 7: { VectorBase<R> r = y; r += toDS(x, g); vopEvent<R>("add", "V+=SV" + tg, x, y, zero, &r, nullptr); break; }
      case 8: { VectorBase<R> r = y; r += toSS(x, g, true); vopEvent<R>("add", "V+=SSV" + tg, x, y, zero, &r, nullptr); break; }
      case 9: { VectorBase<R> r = y; r -= x; vopEvent<R>("sub", "V-=V" + tg, x, y, zero, &r, nullptr); break; }
      case 10: { VectorBase<R> r = y; r -= toDS(x, g); vopEvent<R>("sub", "V-=SV" + tg, x, y, zero, &r, nullptr); break; }
      case 11: { VectorBase<R> r = y; r -= toSS(x, g, true); vopEvent<R>("sub", "V-=SSV" + tg, x, y, zero, &r, nullptr); break; }
      case 12: { VectorBase<R> r = x; r *= alpha; vopEvent<R>("scale", "V*=a" + tg, x, y, alpha, &r, nullptr); break; }
      case 13: { DSVectorBase<R> s = toDS(x, g); s *= alpha; VectorBase<R> r = fromSV<R>(s, n); vopEvent<R>("scale", "SV*=a" + tg, x, y, alpha, &r, nullptr); break; }
      case 14: { SSVectorBase<R> s = toSS(x, g, true); s *= alpha; VectorBase<R> r = fromSS<R>(s); vopEvent<R>("scale", "SSV*=a" + tg, x, y, alpha, &r, nullptr); break; }
      case 15: { VectorBase<R> r = y; r.multAdd(alpha, x); vopEvent<R>("axpy", "V.multAdd(a,V)" + tg, x, y, alpha, &r, nullptr); break; }
      case 16: { VectorBase<R> r = y; r.multAdd(alpha, toDS(x, g)); vopEvent<R>("axpy", "V.multAdd(a,SV)" + tg, x, y, alpha, &r, nullptr); break; }
      case 17: { VectorBase<R> r = y; r.multAdd(alpha, toSS(x, g, true)); vopEvent<R>("axpy", "V.multAdd(a,SSV)" + tg, x, y, alpha, &r, nullptr); break; }
      case 18: { SSVectorBase<R> s = toSS(y, g, true); s.multAdd(alpha, toDS(x, g)); VectorBase<R> r = fromSS<R>(s); vopEvent<R>("axpy", "SSV.multAdd(a,SV)" + tg, x, y, alpha, &r, nullptr); break; }
      case 19: { SSVectorBase<R> s = toSS(y, g, true); s.multAdd(alpha, x); VectorBase<R> r = fromSS<R>(s); vopEvent<R>("axpy", "SSV.multAdd(a,V)" + tg, x, y, alpha, &r, nullptr); break; }
      case 20: { VectorBase<R> r(n); r = toDS(x, g); vopEvent<R>("assign", "V=SV" + tg, x, y, zero, &r, nullptr); break; }
      case 21: { DSVectorBase<R> s(1); s = x; VectorBase<R> r = fromSV<R>(s, n); vopEvent<R>("assign", "DSV=V" + tg, x, y, zero, &r, nullptr, s.size()); break; }
      case 22: { SSVectorBase<R> s(n, std::make_shared<Tolerances>()); s = toDS(x, g); VectorBase<R> r = fromSS<R>(s); vopEvent<R>("assign", "SSV=SV" + tg, x, y, zero, &r, nullptr, s.size()); break; }
      case 23: { SSVectorBase<R> s = toSS(x, g, false); s.setup(); VectorBase<R> r = fromSS<R>(s); std::vector<int> idx(s.indexMem(), s.indexMem() + s.size()); std::sort(idx.begin(), idx.end()); vopEvent<R>("setup", "SSV.setup" + tg, x, y, zero, &r, nullptr, s.size(), jints(idx)); break; }
      case 24: { DSVectorBase<R> s = toDS(x, g); s.sort(); VectorBase<R> r = fromSV<R>(s, n); std::vector<int> idx; for(int k = 0; k < s.size(); k++) idx.push_back(s.index(k)); vopEvent<R>("sort", "SV.sort" + tg, x, y, zero, &r, nullptr, s.size(), jints(idx)); break; }
      case 25: { R v = x.maxAbs(); vopEvent<R>("maxAbs", "V.maxAbs" + tg, x, y, zero, nullptr, &v); break; }
      case 26: { DSVectorBase<R> s = toDS(x, g); R v = s.size() ? s.maxAbs() : R(0); vopEvent<R>("maxAbs", "SV.maxAbs" + tg, x, y, zero, nullptr, &v); break; }
      case 27: { R v = x.length2(); vopEvent<R>("length2", "V.length2" + tg, x, y, zero, nullptr, &v); break; }
      case 28: { // shrink and regrow a set-up SSVector, then add into the regrown part: res = y + alpha * x with y truncated at k
         int k = g.R(0, n - 1); SSVectorBase<R> s = toSS(y, g, true); s.reDim(k); s.reDim(n); VectorBase<R> yt(n); for(int i = 0; i < n; i++) yt[i] = i < k ? y[i] : R(0);
         s.multAdd(alpha, toDS(x, g)); VectorBase<R> r = fromSS<R>(s); if(!s.isSetup()) s.setup(); vopEvent<R>("axpy", "SSV.reDim;multAdd(a,SV)" + tg, x, yt, alpha, &r, nullptr, s.size()); break; }
      case 29: { // SVector = SSVector
         SSVectorBase<R> ss = toSS(x, g, true); DSVectorBase<R> d(n + 1); static_cast<SVectorBase<R>&>(d) = ss; VectorBase<R> r = fromSV<R>(d, n); vopEvent<R>("assign", "SV=SSV" + tg, x, y, zero, &r, nullptr, d.size()); break; }
      case 30: { // DSVector::add(SVector) appends: x and y with disjoint supports
         VectorBase<R> xa(n), ya(n); for(int i = 0; i < n; i++) { xa[i] = (i & 1) ? x[i] : R(0); ya[i] = (i & 1) ? R(0) : y[i]; }
         DSVectorBase<R> d = toDS(ya, g); d.add(toDS(xa, g)); VectorBase<R> r = fromSV<R>(d, n); vopEvent<R>("add", "DSV.add(SV)" + tg, xa, ya, zero, &r, nullptr, d.size()); break; }
      default: { // SVector::remove(a, b): removes the nonzeros at positions a..b (any order of the rest)
         DSVectorBase<R> d = toDS(x, g); if(d.size() == 0) break; int a = g.R(0, d.size() - 1), b = g.R(a, d.size() - 1); VectorBase<R> xr = x; for(int p = a; p <= b; p++) xr[d.index(p)] = R(0);
         d.remove(a, b); VectorBase<R> r = fromSV<R>(d, n); vopEvent<R>("assign", "SV.remove(n,m)" + tg, xr, y, zero, &r, nullptr, d.size()); break; }
      }
   }
}
static void runVec(Rng& g, int len) { if(g.coin()) runVecT<double>(g, len, ":d"); else runVecT<Rational>(g, len, ":q"); }

// ------------------------------------------------------------------------------------------------ TLC-generated scripts (bounded-exhaustive)
// each line of the script file is one behaviour of MC/GEN_Containers: {"kind":k,"ops":[op codes]} ; op codes 0..99 select the same
// branches as the random driver, the random choices inside a branch come from a per-script seed
static void runScripts(const char* path, int shard, int nshards)
{
   std::ifstream in(path); std::string line; long ln = 0;
   while(std::getline(in, line))
   {
      if((ln++ % nshards) != shard) continue;
      // minimal parsing: "kind":<int>,"ops":[a,b,c]
      size_t p = line.find("\"kind\":"); if(p == std::string::npos) continue; int kind = atoi(line.c_str() + p + 7);
      size_t q = line.find("\"ops\":["); if(q == std::string::npos) continue; std::vector<int> ops; const char* s = line.c_str() + q + 7;
      while(*s && *s != ']') { ops.push_back(atoi(s)); while(*s && *s != ',' && *s != ']') s++; if(*s == ',') s++; }
      Rng g((unsigned long)ln * 7919UL + 17); alarm(60);
      T().line("{\"a\":\"Reset\"}"); g_nextId = 0; SVKeyed<double>::g_small = SVKeyed<Rational>::g_small = true;
      std::vector<std::unique_ptr<KeyedBase>> objs; objs.emplace_back(newKeyed(kind));
      { J ev; ev.s("a", "new").s("fam", "keyed").s("kind", objs[0]->kind()); objs[0]->emit(ev); }
      for(int op : ops) keyedStep(g, objs, kind, op);
   }
}

static void onWatchdog(int) { crashLine("execution did not finish within 120 s (hang)"); _exit(0); }
int main(int argc, char** argv)
{
   if(argc < 6) { fprintf(stderr, "usage: cont_drv <family> <seed> <nexec> <len> <out>\n"); return 2; }
   std::string fam = argv[1]; unsigned long seed = strtoul(argv[2], nullptr, 10); int nexec = atoi(argv[3]), len = atoi(argv[4]);
   { FILE* f = fopen(argv[5], "w"); if(!f) return 2; fclose(f); }
   bool nofork = getenv("VERIF_NOFORK") != nullptr; int onlyExec = getenv("VERIF_EXEC") ? atoi(getenv("VERIF_EXEC")) : -1;
   if(fam == "script")
   {
      const char* path = getenv("VERIF_SCRIPTS"); if(!path) return 2;
      T().f = fopen(argv[5], "a"); setvbuf(T().f, nullptr, _IOLBF, 1 << 16); installCrashHandlers(); signal(SIGALRM, onWatchdog); runScripts(path, (int)seed, nexec); T().close(); return 0;
   }
   for(int e = 0; e < nexec; e++)
   {
      if(onlyExec >= 0 && e != onlyExec) continue;
      pid_t pid = nofork ? 0 : fork();
      if(pid == 0)
      {
         T().f = fopen(argv[5], "a"); if(!T().f) _exit(2);
         setvbuf(T().f, nullptr, _IOLBF, 1 << 16); if(!nofork) { installCrashHandlers(); signal(SIGALRM, onWatchdog); alarm(120); }
         Rng g(seed * 1000003UL + (unsigned long)e);
         if(fam == "keyed") runKeyed(g, len); else if(fam == "seq") runSeq(g, len); else if(fam == "bag") runBag(g, len); else if(fam == "list") runList(g, len);
         else if(fam == "map") runMap(g, len); else if(fam == "vec") runVec(g, len); else { fprintf(stderr, "unknown family\n"); _exit(2); }
         T().close(); if(!nofork) _exit(0);
      }
      else if(pid > 0) { int status = 0; waitpid(pid, &status, 0);
         if(WIFEXITED(status) && WEXITSTATUS(status) == 2) return 2;
         if(WIFSIGNALED(status)) { FILE* f = fopen(argv[5], "a"); if(f) { fprintf(f, "{\"a\":\"Crash\",\"what\":\"killed by signal %d\",\"during\":\"\"}\n", WTERMSIG(status)); fclose(f); } } }
      else return 2;
   }
   return 0;
}
