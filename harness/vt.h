// Common trace plumbing for the conformance harnesses: NDJSON emitter, exact number printing,
// seeded RNG, crash handlers.  Numbers never travel as decimal floating point: a double is
// logged as the exact rational it denotes (mpq_set_d is exact), |v| >= 1e100 as "inf"/"-inf".
#ifndef VERIF_VT_H
#define VERIF_VT_H
#include <gmp.h>
#include <cmath>
#include <cstdio>
#include <cstdlib>
#include <cstring>
#include <csignal>
#include <string>
#include <sstream>
#include <vector>
#include <random>
#include <fstream>
#include <functional>
#include <algorithm>
#include <exception>
#include <unistd.h>

namespace vt
{
inline std::string qd(double v)
{
   if(std::isnan(v)) return "nan";
   if(v >= 1e100) return "inf";
   if(v <= -1e100) return "-inf";
   if(v == 0.0) return "0";
   mpq_t q; mpq_init(q); mpq_set_d(q, v);
   char* s = mpq_get_str(nullptr, 10, q);
   std::string r(s);
   void (*freefunc)(void*, size_t); mp_get_memory_functions(nullptr, nullptr, &freefunc); freefunc(s, strlen(s) + 1);
   mpq_clear(q);
   return r;
}
// raw: no infinity threshold (internal scaled values)
inline std::string qdraw(double v)
{
   if(std::isnan(v)) return "nan";
   if(std::isinf(v)) return v > 0 ? "inf" : "-inf";
   if(v == 0.0) return "0";
   mpq_t q; mpq_init(q); mpq_set_d(q, v);
   char* s = mpq_get_str(nullptr, 10, q);
   std::string r(s);
   void (*freefunc)(void*, size_t); mp_get_memory_functions(nullptr, nullptr, &freefunc); freefunc(s, strlen(s) + 1);
   mpq_clear(q);
   return r;
}
inline std::string qmpq(const mpq_t q0)
{
   mpq_t q; mpq_init(q); mpq_set(q, q0); mpq_canonicalize(q);
   char* s = mpq_get_str(nullptr, 10, q);
   std::string r(s);
   void (*freefunc)(void*, size_t); mp_get_memory_functions(nullptr, nullptr, &freefunc); freefunc(s, strlen(s) + 1);
   mpq_clear(q);
   return r;
}
inline std::string jstr(const std::string& s)
{
   std::string o = "\"";
   for(unsigned char c : s)
   {
      if(c == '"' || c == '\\') { o += '\\'; o += (char)c; }
      else if(c < 0x20 || c >= 0x7f) { char b[8]; snprintf(b, sizeof b, "\\u%04x", c); o += b; }
      else o += (char)c;
   }
   return o + "\"";
}

// ---- tiny JSON object builder
struct J
{
   std::ostringstream o; bool first = true;
   J() { o << "{"; }
   void key(const char* k) { if(!first) o << ","; first = false; o << "\"" << k << "\":"; }
   J& s(const char* k, const std::string& v) { key(k); o << jstr(v); return *this; }
   J& q(const char* k, double v) { key(k); o << "\"" << qd(v) << "\""; return *this; }
   J& i(const char* k, long v) { key(k); o << v; return *this; }
   J& b(const char* k, bool v) { key(k); o << (v ? "true" : "false"); return *this; }
   J& raw(const char* k, const std::string& v) { key(k); o << v; return *this; }
   std::string str() { return o.str() + "}"; }
};
template <class F> inline std::string jarr(int n, F f)
{
   std::ostringstream o; o << "[";
   for(int i = 0; i < n; i++) { if(i) o << ","; o << f(i); }
   o << "]"; return o.str();
}
inline std::string jq(const std::string& s) { return "\"" + s + "\""; }
inline std::string jints(const int* a, int n) { return jarr(n, [&](int i) { return std::to_string(a[i]); }); }
inline std::string jints(const std::vector<int>& a) { return jints(a.data(), (int)a.size()); }
inline std::string jdbl(const double* a, int n) { return jarr(n, [&](int i) { return jq(qd(a[i])); }); }
inline std::string jdbl(const std::vector<double>& a) { return jdbl(a.data(), (int)a.size()); }
inline std::string jdblraw(const double* a, int n) { return jarr(n, [&](int i) { return jq(qdraw(a[i])); }); }
// sparse vector as [[idx,"val"],...] sorted by index
inline std::string jsp(std::vector<std::pair<int, std::string>> e)
{
   std::sort(e.begin(), e.end(), [](const std::pair<int, std::string>& a, const std::pair<int, std::string>& b) { return a.first < b.first; });
   std::ostringstream o; o << "[";
   for(size_t k = 0; k < e.size(); k++) { if(k) o << ","; o << "[" << e[k].first << ",\"" << e[k].second << "\"]"; }
   o << "]"; return o.str();
}

// ---- trace sink
struct Trace
{
   FILE* f = nullptr; long n = 0;
   void open(const char* path) { f = fopen(path, "w"); if(!f) { perror(path); _exit(2); } }
   void line(const std::string& s) { fputs(s.c_str(), f); fputc('\n', f); n++; }
   void flush() { if(f) fflush(f); }
   void close() { if(f) { fclose(f); f = nullptr; } }
};
inline Trace& T() { static thread_local Trace t; return t; }   // one trace per thread (C18)

// a crash must never silently truncate a trace: log it and leave
inline std::string& pending() { static thread_local std::string p; return p; }
inline void crashLine(const char* what)
{
   Trace& t = T();
   if(t.f) { fprintf(t.f, "{\"a\":\"Crash\",\"what\":\"%s\",\"during\":\"%s\"}\n", what, pending().c_str()); fflush(t.f); }
}
inline int& crashExitCode() { static int c = 0; return c; }   // thread mode: the parent must learn that the execution died
inline void onSignal(int sig)
{
   char b[64]; snprintf(b, sizeof b, "signal %d", sig); crashLine(b); _exit(crashExitCode());
}
inline void onTerminate()
{
   const char* w = "terminate";
   std::string msg;
   try { auto e = std::current_exception(); if(e) std::rethrow_exception(e); }
   catch(const std::exception& e) { msg = std::string("exception: ") + e.what(); for(char& c : msg) if(c == '"' || c == '\\' || c < 0x20) c = ' '; w = msg.c_str(); }
   catch(...) { w = "unknown exception (not derived from std::exception, e.g. soplex::SPxException)"; }
   crashLine(w); _exit(crashExitCode());
}
inline void installCrashHandlers()
{
   std::set_terminate(onTerminate);
   signal(SIGSEGV, onSignal); signal(SIGABRT, onSignal); signal(SIGFPE, onSignal); signal(SIGBUS, onSignal); signal(SIGILL, onSignal);
}

// ---- RNG
struct Rng
{
   std::mt19937_64 g;
   explicit Rng(unsigned long seed) : g(seed) {}
   int R(int a, int b) { return a + (int)(g() % (unsigned long)(b - a + 1)); }
   bool coin(int num = 1, int den = 2) { return (int)(g() % (unsigned long)den) < num; }
   template <class V> const typename V::value_type& pick(const V& v) { return v[g() % v.size()]; }
};
inline long envl(const char* k, long d) { const char* s = getenv(k); return s && *s ? atol(s) : d; }
} // namespace vt
#endif
