// API driver: applies (seeded random or scripted) histories of public SoPlex calls to real solver
// objects and logs one NDJSON event per call AT RETURN with arguments, results and the full
// projected state.  spec/TV_API.tla validates the trace.
//
//   api_drv <workload> <seed> <nexec> <len> <out.ndjson>
#include "proj.h"
#include <memory>
#include <map>

using namespace soplex;
using namespace vt;

struct Ctx
{
   std::map<int, int> modsSinceBasis;
   std::map<int, bool> noInternal;      // object is a copy, or its SCALER parameter changed while the LP was scaled   // per object: LP modifications since the basis was last set by optimize/setBasis
   Rng rng;
   std::map<int, std::unique_ptr<SoPlex>> objs;
   bool logOthers = false;
   int nextId = 0;
   explicit Ctx(unsigned long seed) : rng(seed) {}
};

static std::string others(Ctx& c, int o)
{
   if(!c.logOthers) return "[]";
   std::ostringstream s; s << "["; bool first = true;
   for(auto& kv : c.objs)
   {
      if(kv.first == o) continue;
      if(!first) s << ","; first = false;
      s << "{\"o\":" << kv.first << ",\"st\":" << proj(*kv.second, !c.noInternal[kv.first]) << "}";
   }
   s << "]"; return s.str();
}
static void emit(Ctx& c, int o, J& ev)
{
   auto it = c.objs.find(o);
   if(it != c.objs.end()) ev.raw("st", proj(*it->second, !c.noInternal[o]));
   ev.raw("others", others(c, o));
   T().line(ev.str());
}

// ---------------------------------------------------------------- value generators
struct Gen
{
   Rng& g; int mode; // 0: small integers, 1: powers of two spread (scaling), 2: dyadic fractions
   double coef()
   {
      double v;
      do { v = (double)g.R(-3, 3); } while(v == 0.0);
      if(mode == 1) v = std::ldexp(v, g.R(-12, 12));
      if(mode == 2 && g.coin(1, 3)) v = v / 4.0;
      return v;
   }
   double cost() { double v = (double)g.R(-3, 3); if(mode == 1 && v != 0) v = std::ldexp(v, g.R(-8, 8)); return v; }
   double lower() { return g.coin(1, 4) ? -infinity : (double)g.R(-3, 1) * (mode == 1 ? std::ldexp(1.0, g.R(-6, 6)) : 1.0); }
   double upperFrom(double lo)
   {
      if(g.coin(1, 4)) return infinity;
      double base = lo <= -infinity ? (double)g.R(-2, 4) : lo + (double)g.R(0, 4) * (mode == 1 ? std::ldexp(1.0, g.R(-6, 6)) : 1.0);
      return base;
   }
};

static DSVector randVec(Ctx& c, Gen& gen, int dim, int extra, std::string& js)
{
   DSVector v; std::vector<std::pair<int, std::string>> e;
   int n = dim + extra;
   for(int j = 0; j < n; j++)
   {
      bool take = j < dim ? c.rng.coin(1, 2) : c.rng.coin(1, 2);
      if(!take) continue;
      double x = gen.coef();
      v.add(j, x); e.push_back({j, qd(x)});
   }
   js = jsp(e);
   return v;
}

static thread_local int g_tid = 0;
static thread_local bool g_threaded = false;              // C18 thread mode: no process-wide watchdog alarms, time limits out of reach
// ---------------------------------------------------------------- events
static int createObj(Ctx& c)
{
   int id = c.nextId++;
   c.objs[id].reset(new SoPlex()); c.noInternal[id] = false; c.modsSinceBasis[id] = 0;
   SoPlex& s = *c.objs[id];
   s.setIntParam(SoPlex::VERBOSITY, (envl("VERIF_VERBOSE_T", -1) < 0 || envl("VERIF_VERBOSE_T", -1) == g_tid) ? (int)envl("VERIF_VERBOSITY", 0) : 0);     // debugging only: the progress log goes to stdout
   J ev; ev.s("a", "create").i("o", id);
   emit(c, id, ev);
   return id;
}
static void setInt(Ctx& c, int o, const char* name, SoPlex::IntParam p, int v)
{
   if(p == SoPlex::SCALER && Probe::scaled(*c.objs[o])) c.noInternal[o] = true;
   bool ret = c.objs[o]->setIntParam(p, v);
   J ev; ev.s("a", "setInt").i("o", o).s("p", name).i("v", v).b("ret", ret);
   emit(c, o, ev);
}
static void setBool(Ctx& c, int o, const char* name, SoPlex::BoolParam p, bool v)
{
   bool ret = c.objs[o]->setBoolParam(p, v);
   J ev; ev.s("a", "setBool").i("o", o).s("p", name).b("v", v).b("ret", ret);
   emit(c, o, ev);
}
static void setReal(Ctx& c, int o, const char* name, SoPlex::RealParam p, double v)
{
   bool ret = c.objs[o]->setRealParam(p, v);
   J ev; ev.s("a", "setReal").i("o", o).s("p", name).q("v", v).b("ret", ret);
   emit(c, o, ev);
}

static std::string dvec(const VectorBase<double>& v) { return jarr(v.dim(), [&](int i) { return jq(qd(v[i])); }); }

// g_wellScaled: the LP data of the running workload are small integers (verdict comparisons between different solves of the
// same LP are only meaningful then: on data spanning 2^-12..2^12 a tolerance-level OPTIMAL and an exact UNBOUNDED can both be right)
static thread_local bool g_wellScaled = true;
struct SolveOpts { bool limited = false; bool complete = true; std::string detKey; };
static std::string paramsDigest(SoPlex& s)
{
   std::ostringstream o;
   for(int i = 0; i < SoPlex::BOOLPARAM_COUNT; i++) o << (s.boolParam((SoPlex::BoolParam)i) ? 'T' : 'F');
   for(int i = 0; i < SoPlex::INTPARAM_COUNT; i++) if(i != SoPlex::VERBOSITY) o << "," << s.intParam((SoPlex::IntParam)i);
   for(int i = 0; i < SoPlex::REALPARAM_COUNT; i++) o << "," << qdraw(s.realParam((SoPlex::RealParam)i));
   o << ",seed" << s.randomSeed();
   return o.str();
}
// hook H1: the events of the solve driver (solvereal.hpp) during one optimize() call, for SolveDriver.tla
static thread_local std::string g_frames; static thread_local int g_nframes = 0;
static void onSolveEvent(const char* ev, int depth, int a, int b, int c2, int d)
{
   if(g_nframes++ >= 400) return;          // (a runaway recursion is cut in the log; the missing "ret" events give it away)
   g_frames += (g_frames.empty() ? "" : ",") + std::string("[\"") + ev + "\"," + std::to_string(depth) + "," + std::to_string(a) + "," + std::to_string(b) + "," + std::to_string(c2) + "," + std::to_string(d) + "]";
}
static int optimize(Ctx& c, int o, SolveOpts so, volatile bool* interrupt = nullptr)
{
   SoPlex& s = *c.objs[o];
   pending() = "optimize";
   std::string pdig = paramsDigest(s);
   g_frames.clear(); g_nframes = 0; soplex_verif::solveHook() = onSolveEvent;
   SPxSolver::Status st = s.optimize(interrupt);
   soplex_verif::solveHook() = nullptr;
   int nr = s.numRows(), nc = s.numCols();
   J r; r.i("status", (int)st).b("hasSol", s.hasSol());
   VectorBase<double> x(nc), sl(nr), y(nr), d(nc);
   bool full = false;
   if(st == SPxSolver::OPTIMAL && s.hasSol())
      full = s.getPrimal(x) && s.getSlacksReal(sl) && s.getDual(y) && s.getRedCost(d);
   r.b("full", full);
   r.q("objval", s.objValueReal());
   if(full) r.raw("sol", "{\"x\":" + dvec(x) + ",\"s\":" + dvec(sl) + ",\"y\":" + dvec(y) + ",\"d\":" + dvec(d) + "}");
   else r.raw("sol", "{\"x\":[],\"s\":[],\"y\":[],\"d\":[]}");
   bool hasRay = s.hasPrimalRay(), hasFk = s.hasDualFarkas();
   VectorBase<double> ray(nc), fk(nr);
   if(hasRay) hasRay = s.getPrimalRay(ray);
   if(hasFk) hasFk = s.getDualFarkas(fk);
   r.b("hasRay", hasRay).raw("ray", hasRay ? dvec(ray) : "[]");
   r.b("hasFarkas", hasFk).raw("farkas", hasFk ? dvec(fk) : "[]");
   r.b("hasBasis", s.hasBasis());
   if(s.hasBasis())
   {
      std::vector<SPxSolver::VarStatus> br(nr + 1), bc(nc + 1); std::vector<int> bind(nr + 1);
      s.getBasis(br.data(), bc.data()); s.getBasisInd(bind.data());
      r.raw("brow", statuses(br.data(), nr)).raw("bcol", statuses(bc.data(), nc)).raw("bind", jints(bind.data(), nr));
   }
   else r.raw("brow", "[]").raw("bcol", "[]").raw("bind", "[]");
   r.i("iters", s.numIterations()).b("interrupted", interrupt != nullptr && *interrupt);
   c.modsSinceBasis[o] = 0;
   J ev; ev.s("a", "optimize").i("o", o).b("exact", false).b("limited", so.limited).b("complete", so.complete).s("pdig", pdig).s("detKey", so.detKey).b("wellScaled", g_wellScaled).raw("r", r.str());
   ev.raw("frames", "[" + g_frames + "]");
   emit(c, o, ev);
   return (int)st;
}

static void queryBasis(Ctx& c, int o)
{
   SoPlex& s = *c.objs[o]; int nr = s.numRows(), nc = s.numCols();
   std::vector<int> bind(nr + 1);
   pending() = "queryBasis modsSinceBasis=" + std::to_string(c.modsSinceBasis[o]);
   if(s.hasBasis()) s.getBasisInd(bind.data());
   J ev; ev.s("a", "queryBasis").i("o", o).i("modsSinceBasis", c.modsSinceBasis[o]);
   ev.raw("prow", jarr(nr, [&](int i) { return std::to_string((int)s.basisRowStatus(i)); }));
   ev.raw("pcol", jarr(nc, [&](int j) { return std::to_string((int)s.basisColStatus(j)); }));
   ev.raw("bind", s.hasBasis() ? jints(bind.data(), nr) : "[]");
   emit(c, o, ev);
}
static void clearBasis(Ctx& c, int o)
{
   c.objs[o]->clearBasis();
   J ev; ev.s("a", "clearBasis").i("o", o);
   emit(c, o, ev);
}
// a structurally valid random basis: exactly nr basic variables, nonbasic statuses compatible with the bounds
static void setRandomBasis(Ctx& c, int o)
{
   SoPlex& s = *c.objs[o]; int nr = s.numRows(), nc = s.numCols();
   std::vector<int> isb(nr + nc, 0); std::vector<int> idx(nr + nc);
   for(int k = 0; k < nr + nc; k++) idx[k] = k;
   std::shuffle(idx.begin(), idx.end(), c.rng.g);
   for(int k = 0; k < nr; k++) isb[idx[k]] = 1;
   std::vector<SPxSolver::VarStatus> br(nr + 1), bc(nc + 1);
   auto nb = [&](double lo, double up)
   {
      bool fl = lo > -infinity, fu = up < infinity;
      if(fl && fu) return lo == up ? SPxSolver::FIXED : (c.rng.coin() ? SPxSolver::ON_LOWER : SPxSolver::ON_UPPER);
      if(fl) return SPxSolver::ON_LOWER;
      if(fu) return SPxSolver::ON_UPPER;
      return SPxSolver::ZERO;
   };
   for(int i = 0; i < nr; i++) br[i] = isb[i] ? SPxSolver::BASIC : nb(s.lhsReal(i), s.rhsReal(i));
   for(int j = 0; j < nc; j++) bc[j] = isb[nr + j] ? SPxSolver::BASIC : nb(s.lowerReal(j), s.upperReal(j));
   s.setBasis(br.data(), bc.data());
   c.modsSinceBasis[o] = 0;
   J ev; ev.s("a", "setBasis").i("o", o).raw("brow", statuses(br.data(), nr)).raw("bcol", statuses(bc.data(), nc));
   emit(c, o, ev);
}

// ---------------------------------------------------------------- modifications through the real interface
static void modEvent(Ctx& c, int o, const char* name, const std::string& g, const std::string& permOut = "[]")
{
   c.modsSinceBasis[o]++;
   J ev; ev.s("a", "mod").i("o", o).s("name", name).s("via", "real").raw("g", g).raw("permOut", permOut);
   emit(c, o, ev);
}
static std::string rowJson(double lhs, const std::string& vec, double rhs)
{
   J g; g.q("lhs", lhs).raw("vec", vec).q("rhs", rhs); return g.str();
}
static std::string colJson(double obj, double lo, const std::string& vec, double up)
{
   J g; g.q("obj", obj).q("lo", lo).raw("vec", vec).q("up", up); return g.str();
}
static void sides(Ctx& c, Gen& gen, double& lhs, double& rhs)
{
   lhs = gen.lower(); rhs = gen.upperFrom(lhs);
   if(c.rng.coin(1, 6) && lhs > -infinity) rhs = lhs;            // equation
}

// returns false if the chosen operation is not applicable in the current state
static bool randomModReal(Ctx& c, int o, Gen& gen, int maxDim)
{
   SoPlex& s = *c.objs[o];
   int nr = s.numRows(), nc = s.numCols();
   int a = c.rng.R(0, 29);
   std::string vj;
   pending() = "modReal case " + std::to_string(a);
   switch(a)
   {
   case 0: { // addRow
      if(nr >= maxDim) return false;
      double lhs, rhs; sides(c, gen, lhs, rhs);
      DSVector v = randVec(c, gen, nc, (nc < maxDim && c.rng.coin(1, 5)) ? c.rng.R(1, 2) : 0, vj);
      s.addRowReal(LPRow(lhs, v, rhs));
      modEvent(c, o, "addRow", rowJson(lhs, vj, rhs)); return true; }
   case 1: { // addRows
      if(nr + 2 > maxDim) return false;
      int k = c.rng.R(0, 2); LPRowSet set; std::ostringstream rows; rows << "[";
      for(int t = 0; t < k; t++)
      {
         double lhs, rhs; sides(c, gen, lhs, rhs);
         DSVector v = randVec(c, gen, nc, (nc < maxDim && c.rng.coin(1, 6)) ? 1 : 0, vj);
         set.add(lhs, v, rhs); rows << (t ? "," : "") << rowJson(lhs, vj, rhs);
      }
      rows << "]";
      s.addRowsReal(set);
      modEvent(c, o, "addRows", "{\"rows\":" + rows.str() + "}"); return true; }
   case 2: { // addCol
      if(nc >= maxDim) return false;
      double lo = gen.lower(), up = gen.upperFrom(lo), obj = gen.cost();
      DSVector v = randVec(c, gen, nr, (nr < maxDim && c.rng.coin(1, 5)) ? c.rng.R(1, 2) : 0, vj);
      s.addColReal(LPCol(obj, v, up, lo));
      modEvent(c, o, "addCol", colJson(obj, lo, vj, up)); return true; }
   case 3: { // addCols
      if(nc + 2 > maxDim) return false;
      int k = c.rng.R(0, 2); LPColSet set; std::ostringstream cols; cols << "[";
      for(int t = 0; t < k; t++)
      {
         double lo = gen.lower(), up = gen.upperFrom(lo), obj = gen.cost();
         DSVector v = randVec(c, gen, nr, (nr < maxDim && c.rng.coin(1, 6)) ? 1 : 0, vj);
         set.add(obj, lo, v, up); cols << (t ? "," : "") << colJson(obj, lo, vj, up);
      }
      cols << "]";
      s.addColsReal(set);
      modEvent(c, o, "addCols", "{\"cols\":" + cols.str() + "}"); return true; }
   case 4: { // changeRow
      if(nr == 0) return false;
      int i = c.rng.R(0, nr - 1); double lhs, rhs; sides(c, gen, lhs, rhs);
      DSVector v = randVec(c, gen, nc, 0, vj);
      s.changeRowReal(i, LPRow(lhs, v, rhs));
      J g; g.i("i", i).q("lhs", lhs).raw("vec", vj).q("rhs", rhs);
      modEvent(c, o, "changeRow", g.str()); return true; }
   case 5: { // changeCol
      if(nc == 0) return false;
      int j = c.rng.R(0, nc - 1); double lo = gen.lower(), up = gen.upperFrom(lo), obj = gen.cost();
      DSVector v = randVec(c, gen, nr, 0, vj);
      s.changeColReal(j, LPCol(obj, v, up, lo));
      J g; g.i("i", j).q("obj", obj).q("lo", lo).raw("vec", vj).q("up", up);
      modEvent(c, o, "changeCol", g.str()); return true; }
   case 6: { if(nr == 0) return false; int i = c.rng.R(0, nr - 1);
      double v = gen.lower(); if(v > s.rhsReal(i)) v = s.rhsReal(i);
      s.changeLhsReal(i, v); J g; g.i("i", i).q("v", v); modEvent(c, o, "changeLhs", g.str()); return true; }
   case 7: { if(nr == 0) return false; int i = c.rng.R(0, nr - 1);
      double v = gen.upperFrom(s.lhsReal(i)); if(v < s.lhsReal(i)) v = s.lhsReal(i);
      s.changeRhsReal(i, v); J g; g.i("i", i).q("v", v); modEvent(c, o, "changeRhs", g.str()); return true; }
   case 8: { if(nr == 0) return false; int i = c.rng.R(0, nr - 1); double lhs, rhs; sides(c, gen, lhs, rhs);
      s.changeRangeReal(i, lhs, rhs); J g; g.i("i", i).q("lhs", lhs).q("rhs", rhs); modEvent(c, o, "changeRange", g.str()); return true; }
   case 9: { if(nc == 0) return false; int j = c.rng.R(0, nc - 1);
      double v = gen.lower(); if(v > s.upperReal(j)) v = s.upperReal(j);
      s.changeLowerReal(j, v); J g; g.i("i", j).q("v", v); modEvent(c, o, "changeLower", g.str()); return true; }
   case 10: { if(nc == 0) return false; int j = c.rng.R(0, nc - 1);
      double v = gen.upperFrom(s.lowerReal(j)); if(v < s.lowerReal(j)) v = s.lowerReal(j);
      s.changeUpperReal(j, v); J g; g.i("i", j).q("v", v); modEvent(c, o, "changeUpper", g.str()); return true; }
   case 11: { if(nc == 0) return false; int j = c.rng.R(0, nc - 1); double lo = gen.lower(), up = gen.upperFrom(lo);
      s.changeBoundsReal(j, lo, up); J g; g.i("i", j).q("lo", lo).q("up", up); modEvent(c, o, "changeBounds", g.str()); return true; }
   case 12: { if(nc == 0) return false; int j = c.rng.R(0, nc - 1); double v = gen.cost();
      s.changeObjReal(j, v); J g; g.i("i", j).q("v", v); modEvent(c, o, "changeObj", g.str()); return true; }
   case 13: { // changeLhs(vector)
      if(nr == 0) return false; VectorBase<double> v(nr);
      for(int i = 0; i < nr; i++) { v[i] = gen.lower(); if(v[i] > s.rhsReal(i)) v[i] = s.rhsReal(i); }
      s.changeLhsReal(v); modEvent(c, o, "changeLhsV", "{\"v\":" + dvec(v) + "}"); return true; }
   case 14: { if(nr == 0) return false; VectorBase<double> v(nr);
      for(int i = 0; i < nr; i++) { v[i] = gen.upperFrom(s.lhsReal(i)); if(v[i] < s.lhsReal(i)) v[i] = s.lhsReal(i); }
      s.changeRhsReal(v); modEvent(c, o, "changeRhsV", "{\"v\":" + dvec(v) + "}"); return true; }
   case 15: { if(nr == 0) return false; VectorBase<double> l(nr), r(nr);
      for(int i = 0; i < nr; i++) sides(c, gen, l[i], r[i]);
      s.changeRangeReal(l, r); modEvent(c, o, "changeRangeV", "{\"lhs\":" + dvec(l) + ",\"rhs\":" + dvec(r) + "}"); return true; }
   case 16: { if(nc == 0) return false; VectorBase<double> v(nc);
      for(int j = 0; j < nc; j++) { v[j] = gen.lower(); if(v[j] > s.upperReal(j)) v[j] = s.upperReal(j); }
      s.changeLowerReal(v); modEvent(c, o, "changeLowerV", "{\"v\":" + dvec(v) + "}"); return true; }
   case 17: { if(nc == 0) return false; VectorBase<double> v(nc);
      for(int j = 0; j < nc; j++) { v[j] = gen.upperFrom(s.lowerReal(j)); if(v[j] < s.lowerReal(j)) v[j] = s.lowerReal(j); }
      s.changeUpperReal(v); modEvent(c, o, "changeUpperV", "{\"v\":" + dvec(v) + "}"); return true; }
   case 18: { if(nc == 0) return false; VectorBase<double> l(nc), u(nc);
      for(int j = 0; j < nc; j++) { l[j] = gen.lower(); u[j] = gen.upperFrom(l[j]); }
      s.changeBoundsReal(l, u); modEvent(c, o, "changeBoundsV", "{\"lo\":" + dvec(l) + ",\"up\":" + dvec(u) + "}"); return true; }
   case 19: { if(nc == 0) return false; VectorBase<double> v(nc);
      for(int j = 0; j < nc; j++) v[j] = gen.cost();
      s.changeObjReal(v); modEvent(c, o, "changeObjV", "{\"v\":" + dvec(v) + "}"); return true; }
   case 20: { if(nr == 0 || nc == 0) return false; int i = c.rng.R(0, nr - 1), j = c.rng.R(0, nc - 1);
      double v = c.rng.coin(1, 4) ? 0.0 : gen.coef();
      s.changeElementReal(i, j, v); J g; g.i("i", i).i("j", j).q("v", v); modEvent(c, o, "changeElement", g.str()); return true; }
   case 21: { if(nr == 0) return false; int i = c.rng.R(0, nr - 1);
      s.removeRowReal(i); J g; g.i("i", i); modEvent(c, o, "removeRow", g.str()); return true; }
   case 22: { if(nc <= 1) return false; int j = c.rng.R(0, nc - 1);
      s.removeColReal(j); J g; g.i("i", j); modEvent(c, o, "removeCol", g.str()); return true; }
   case 23: { if(nr < 2) return false; std::vector<int> perm(nr);
      for(int i = 0; i < nr; i++) perm[i] = c.rng.coin(1, 3) ? -1 : c.rng.R(0, 5);
      std::string in = jints(perm); s.removeRowsReal(perm.data());
      modEvent(c, o, "removeRowsPerm", "{\"perm\":" + in + "}", jints(perm)); return true; }
   case 24: { if(nr < 2) return false; int n = c.rng.R(0, 2); std::vector<int> idx;
      for(int k = 0; k < n; k++) idx.push_back(c.rng.R(0, nr - 1));
      std::vector<int> perm(nr, 7); bool withPerm = c.rng.coin();
      std::string in = jints(idx); idx.push_back(0);   // keep data() non-null for n = 0
      s.removeRowsReal(idx.data(), n, withPerm ? perm.data() : nullptr);
      modEvent(c, o, "removeRowsIdx", "{\"idx\":" + in + "}", withPerm ? jints(perm) : "[]"); return true; }
   case 25: { if(nr < 2) return false; int st = c.rng.R(0, nr - 1), en = c.rng.R(st, std::min(nr - 1, st + 1));
      std::vector<int> perm(nr, 7); bool withPerm = c.rng.coin();
      s.removeRowRangeReal(st, en, withPerm ? perm.data() : nullptr);
      J g; g.i("start", st).i("end", en); modEvent(c, o, "removeRowRange", g.str(), withPerm ? jints(perm) : "[]"); return true; }
   case 26: { if(nc < 3) return false; std::vector<int> perm(nc);
      for(int i = 0; i < nc; i++) perm[i] = c.rng.coin(1, 4) ? -1 : c.rng.R(0, 5);
      std::string in = jints(perm); s.removeColsReal(perm.data());
      modEvent(c, o, "removeColsPerm", "{\"perm\":" + in + "}", jints(perm)); return true; }
   case 27: { if(nc < 3) return false; int n = c.rng.R(0, 2); std::vector<int> idx;
      for(int k = 0; k < n; k++) idx.push_back(c.rng.R(0, nc - 1));
      std::vector<int> perm(nc, 7); bool withPerm = c.rng.coin();
      std::string in = jints(idx); idx.push_back(0);
      s.removeColsReal(idx.data(), n, withPerm ? perm.data() : nullptr);
      modEvent(c, o, "removeColsIdx", "{\"idx\":" + in + "}", withPerm ? jints(perm) : "[]"); return true; }
   case 28: { if(nc < 3) return false; int st = c.rng.R(0, nc - 1), en = c.rng.R(st, std::min(nc - 1, st + 1));
      std::vector<int> perm(nc, 7); bool withPerm = c.rng.coin();
      s.removeColRangeReal(st, en, withPerm ? perm.data() : nullptr);
      J g; g.i("start", st).i("end", en); modEvent(c, o, "removeColRange", g.str(), withPerm ? jints(perm) : "[]"); return true; }
   case 29: { if(!c.rng.coin(1, 8)) return false;
      s.clearLPReal(); modEvent(c, o, "clearLP", "{}"); return true; }
   }
   return false;
}

// build in a brand-new object the LP that object o currently reports, with the same settings, and solve it
static void freshSolve(Ctx& c, int o, bool transplantBasis = false, const std::string& detKey = "", bool resolveAfterClear = false)
{
   SoPlex& s = *c.objs[o];
   int id = c.nextId++;
   c.objs[id].reset(new SoPlex()); c.noInternal[id] = false; c.modsSinceBasis[id] = 0;
   SoPlex& f = *c.objs[id];
   f.setIntParam(SoPlex::VERBOSITY, 0);
   { J ev; ev.s("a", "create").i("o", id); emit(c, id, ev); }
   f.setSettings(s.settings());
   { J g; g.i("sense", f.intParam(SoPlex::OBJSENSE)).q("offset", f.realParam(SoPlex::OBJ_OFFSET)).q("ftol", f.realParam(SoPlex::FEASTOL))
        .q("otol", f.realParam(SoPlex::OPTTOL)).i("iterlimit", f.intParam(SoPlex::ITERLIMIT)).b("ensureray", f.boolParam(SoPlex::ENSURERAY))
        .i("sync", f.intParam(SoPlex::SYNCMODE)).q("epsz", f.realParam(SoPlex::EPSILON_ZERO))
        .q("tlimit", f.realParam(SoPlex::TIMELIMIT)).q("objlo", f.realParam(SoPlex::OBJLIMIT_LOWER)).q("objup", f.realParam(SoPlex::OBJLIMIT_UPPER));
     J ev; ev.s("a", "setSettingsFrom").i("o", id).i("src", o).raw("g", g.str()); emit(c, id, ev); }
   int nr = s.numRows(), nc = s.numCols();
   for(int j = 0; j < nc; j++)
   {
      DSVector emptyv; f.addColReal(LPCol(s.objReal(j), emptyv, s.upperReal(j), s.lowerReal(j)));
      modEvent(c, id, "addCol", colJson(s.objReal(j), s.lowerReal(j), "[]", s.upperReal(j)));
   }
   for(int i = 0; i < nr; i++)
   {
      DSVector r; s.getRowVectorReal(i, r);
      f.addRowReal(LPRow(s.lhsReal(i), r, s.rhsReal(i)));
      modEvent(c, id, "addRow", rowJson(s.lhsReal(i), spReal(r), s.rhsReal(i)));
   }
   if(transplantBasis && s.hasBasis())
   {
      // C04: a basis the solver has returned is reusable in a new object holding the same LP
      std::vector<SPxSolver::VarStatus> br(nr + 1), bc(nc + 1);
      s.getBasis(br.data(), bc.data());
      f.setBasis(br.data(), bc.data());
      c.modsSinceBasis[id] = 0;
      J ev; ev.s("a", "setBasis").i("o", id).raw("brow", statuses(br.data(), nr)).raw("bcol", statuses(bc.data(), nc));
      emit(c, id, ev);
      queryBasis(c, id);
   }
   SolveOpts so; so.detKey = detKey; optimize(c, id, so);
   if(resolveAfterClear) { clearBasis(c, id); optimize(c, id, so); }
   c.objs.erase(id);
   { J ev; ev.s("a", "destroy").i("o", id); emit(c, id, ev); }
}

static const char* INTP[] = {"SCALER", "SIMPLIFIER", "REPRESENTATION", "ALGORITHM", "PRICER", "RATIOTESTER", "STARTER", "FACTOR_UPDATE_TYPE"};
static void randomConfig(Ctx& c, int o, bool wide)
{
   // scaler x persistent scaling x simplifier x representation (C06), more with wide
   setInt(c, o, "SCALER", SoPlex::SCALER, c.rng.R(0, 6));
   setBool(c, o, "PERSISTENTSCALING", SoPlex::PERSISTENTSCALING, c.rng.coin());
   setInt(c, o, "SIMPLIFIER", SoPlex::SIMPLIFIER, c.rng.coin() ? SoPlex::SIMPLIFIER_OFF : SoPlex::SIMPLIFIER_INTERNAL);
   setInt(c, o, "REPRESENTATION", SoPlex::REPRESENTATION, c.rng.R(0, 2));
   if(wide)
   {
      setInt(c, o, "ALGORITHM", SoPlex::ALGORITHM, c.rng.R(0, 1));
      setInt(c, o, "PRICER", SoPlex::PRICER, c.rng.R(0, 5));
      setInt(c, o, "RATIOTESTER", SoPlex::RATIOTESTER, c.rng.R(0, 3));
      setInt(c, o, "STARTER", SoPlex::STARTER, c.rng.R(0, 3));
      setInt(c, o, "FACTOR_UPDATE_TYPE", SoPlex::FACTOR_UPDATE_TYPE, c.rng.R(0, 1));
      setInt(c, o, "SOLUTION_POLISHING", SoPlex::SOLUTION_POLISHING, c.rng.R(0, 2));
   }
}

// ---------------------------------------------------------------- workloads
// C06 / C04: real-interface modification histories interleaved with solves and basis calls
static void wlMods(Ctx& c, int nexec, int len, int genMode)
{
   for(int e = 0; e < nexec; e++)
   {
      T().line("{\"a\":\"Reset\"}");
      c.objs.clear(); c.nextId = 0;
      Gen gen{c.rng, genMode};
      int o = createObj(c);
      setInt(c, o, "OBJSENSE", SoPlex::OBJSENSE, c.rng.coin() ? SoPlex::OBJSENSE_MINIMIZE : SoPlex::OBJSENSE_MAXIMIZE);
      randomConfig(c, o, c.rng.coin(1, 3));
      if(c.rng.coin(1, 4)) setReal(c, o, "OBJ_OFFSET", SoPlex::OBJ_OFFSET, (double)c.rng.R(-5, 5));
      int maxDim = c.rng.R(2, 6);
      bool arbitraryBasis = false;
      for(int step = 0; step < len; step++)
      {
         int k = c.rng.R(0, 99);
         if(k < 70) { int tries = 0; while(!randomModReal(c, o, gen, maxDim) && ++tries < 50) {} }
         else if(k < 84) { if(c.objs[o]->numCols() == 0 || c.objs[o]->numRows() == 0) continue; SolveOpts so; so.complete = !arbitraryBasis; optimize(c, o, so); arbitraryBasis = false;
                           if(c.rng.coin(1, 2)) queryBasis(c, o);
                           if(c.rng.coin(1, 3)) freshSolve(c, o); }
         else if(k < 88) queryBasis(c, o);
         else if(k < 92) { setRandomBasis(c, o); arbitraryBasis = true; queryBasis(c, o); }
         else if(k < 95) { clearBasis(c, o); arbitraryBasis = false; }
         else if(k < 98) setInt(c, o, "OBJSENSE", SoPlex::OBJSENSE, c.rng.coin() ? SoPlex::OBJSENSE_MINIMIZE : SoPlex::OBJSENSE_MAXIMIZE);
         else setInt(c, o, "OBJSENSE", SoPlex::OBJSENSE, c.rng.R(-3, 3));
      }
      // final: solve and compare with a freshly built object
      if(c.objs[o]->numCols() > 0 && c.objs[o]->numRows() > 0) { SolveOpts so; so.complete = !arbitraryBasis; optimize(c, o, so); freshSolve(c, o); }
   }
}


// ---------------------------------------------------------------- witnessed LPs (C01 C02 C16)
struct LPData
{
   int n = 0, m = 0; int sense = -1;
   std::vector<std::vector<double>> A;      // m x n
   std::vector<double> lhs, rhs, lo, up, c;
   std::string kind;                        // OPT INF UNB
   std::vector<double> x, y, d, ray, farkas;
};
static double dotRow(const LPData& L, int i, const std::vector<double>& v) { double a = 0; for(int j = 0; j < L.n; j++) a += L.A[i][j] * v[j]; return a; }

static LPData genWitnessed(Rng& g, int maxDim, const std::string& kind, double scaleSpread)
{
   LPData L; L.kind = kind; L.n = g.R(1, maxDim); L.m = g.R(1, maxDim); L.sense = g.coin() ? -1 : 1;
   int n = L.n, m = L.m;
   L.A.assign(m, std::vector<double>(n, 0.0)); L.lhs.assign(m, -infinity); L.rhs.assign(m, infinity);
   L.lo.assign(n, -infinity); L.up.assign(n, infinity); L.c.assign(n, 0.0);
   int dens = g.R(30, 90);
   for(int i = 0; i < m; i++) for(int j = 0; j < n; j++) if(g.R(0, 99) < dens) { double v; do v = g.R(-3, 3); while(v == 0); L.A[i][j] = v; }
   // structures named in the quantifier: empty row/column, duplicate rows, singleton rows
   if(g.coin(1, 5)) { int i = g.R(0, m - 1); for(int j = 0; j < n; j++) L.A[i][j] = 0; }
   if(g.coin(1, 5)) { int j = g.R(0, n - 1); for(int i = 0; i < m; i++) L.A[i][j] = 0; }
   if(m >= 2 && g.coin(1, 4)) { int a = g.R(0, m - 1), b = g.R(0, m - 1); if(a != b) { double f = g.coin() ? 1 : 2; for(int j = 0; j < n; j++) L.A[b][j] = f * L.A[a][j]; } }
   if(g.coin(1, 4)) { int i = g.R(0, m - 1), k = g.R(0, n - 1); for(int j = 0; j < n; j++) if(j != k) L.A[i][j] = 0; if(L.A[i][k] == 0) L.A[i][k] = 1; }
   L.x.assign(n, 0.0); for(int j = 0; j < n; j++) L.x[j] = g.R(-3, 3);
   L.y.assign(m, 0.0); L.d.assign(n, 0.0);
   // columns: bound type and position of x*, sign of d* (minimisation convention, flipped at the end for max)
   for(int j = 0; j < n; j++)
   {
      int t = g.R(0, 5);
      switch(t)
      {
      case 0: break;                                                               // free, d = 0
      case 1: L.lo[j] = L.x[j]; L.d[j] = g.R(0, 2); break;                          // at lower, upper infinite
      case 2: L.up[j] = L.x[j]; L.d[j] = -g.R(0, 2); break;                         // at upper
      case 3: L.lo[j] = L.x[j] - g.R(1, 3); L.up[j] = L.x[j] + g.R(1, 3); break;    // boxed, inside
      case 4: if(g.coin()) { L.lo[j] = L.x[j]; L.up[j] = L.x[j] + g.R(1, 4); L.d[j] = g.R(0, 2); }
              else { L.up[j] = L.x[j]; L.lo[j] = L.x[j] - g.R(1, 4); L.d[j] = -g.R(0, 2); } break;   // boxed at a bound
      case 5: L.lo[j] = L.up[j] = L.x[j]; L.d[j] = g.R(-2, 2); break;               // fixed
      }
   }
   for(int i = 0; i < m; i++)
   {
      double act = dotRow(L, i, L.x); int t = g.R(0, 5);
      switch(t)
      {
      case 0: break;                                                                // free row
      case 1: L.lhs[i] = act; L.y[i] = g.R(0, 2); break;                            // >= active
      case 2: L.rhs[i] = act; L.y[i] = -g.R(0, 2); break;                           // <= active
      case 3: L.lhs[i] = act - g.R(1, 3); L.rhs[i] = act + g.R(1, 3); break;         // ranged inactive
      case 4: if(g.coin()) { L.lhs[i] = act; L.rhs[i] = act + g.R(1, 4); L.y[i] = g.R(0, 2); }
              else { L.rhs[i] = act; L.lhs[i] = act - g.R(1, 4); L.y[i] = -g.R(0, 2); } break;
      case 5: L.lhs[i] = L.rhs[i] = act; L.y[i] = g.R(-2, 2); break;                 // equation
      }
   }
   for(int j = 0; j < n; j++) { double a = L.d[j]; for(int i = 0; i < m; i++) a += L.A[i][j] * L.y[i]; L.c[j] = a; }
   if(kind == "UNB")
   {
      // keep x feasible, open the LP along an improving ray
      L.ray.assign(n, 0.0); int k = g.R(1, std::min(n, 2));
      for(int t = 0; t < k; t++) L.ray[g.R(0, n - 1)] = g.coin() ? 1 : -1;
      bool nz = false; for(double v : L.ray) nz = nz || v != 0; if(!nz) L.ray[0] = 1;
      for(int j = 0; j < n; j++) { if(L.ray[j] > 0) L.up[j] = infinity; if(L.ray[j] < 0) L.lo[j] = -infinity; }
      for(int i = 0; i < m; i++) { double ar = dotRow(L, i, L.ray); if(ar > 0) L.rhs[i] = infinity; if(ar < 0) L.lhs[i] = -infinity; }
      double cr = 0; for(int j = 0; j < n; j++) cr += L.c[j] * L.ray[j];
      if(cr >= 0) { for(int j = 0; j < n; j++) if(L.ray[j] != 0) { L.c[j] -= (cr + 1) * L.ray[j]; break; } }   // now c.r = -1 < 0 (min)
   }
   if(kind == "INF")
   {
      // combine up to 3 rows with finite rhs (a_k x <= r_k) and demand the combination to exceed its bound by 1
      std::vector<int> cand; for(int i = 0; i < m; i++) if(L.rhs[i] < infinity) cand.push_back(i);
      L.farkas.assign(m + 1, 0.0);
      std::vector<double> comb(n, 0.0); double r = 0;
      if(!cand.empty())
      {
         int k = g.R(1, std::min((int)cand.size(), 3)); std::shuffle(cand.begin(), cand.end(), g.g);
         for(int t = 0; t < k; t++) { double lam = g.R(1, 2); int i = cand[t]; for(int j = 0; j < n; j++) comb[j] += lam * L.A[i][j]; r += lam * L.rhs[i]; L.farkas[i] = -lam; }
      }
      // columns with finite upper/lower bounds may contribute their box maximum
      for(int j = 0; j < n; j++) if(g.coin(1, 3))
      {
         double w = g.R(-2, 2); if(w > 0 && L.up[j] < infinity) { comb[j] += w; r += w * L.up[j]; }
         else if(w < 0 && L.lo[j] > -infinity) { comb[j] += w; r += w * L.lo[j]; }
      }
      L.A.push_back(comb); L.lhs.push_back(r + 1); L.rhs.push_back(g.coin() ? infinity : r + 1 + g.R(0, 3)); L.m++;
      L.farkas[m] = 1;
   }
   if(L.sense == 1) { for(double& v : L.c) v = -v; for(double& v : L.y) v = -v; for(double& v : L.d) v = -v; }
   if(scaleSpread > 0)
   {
      // spread magnitudes by exact powers of two (row and column factors) so that scalers choose non-trivial exponents;
      // witnesses are transformed accordingly and stay exact
      std::vector<int> re(L.m), ce(L.n); int sp = (int)scaleSpread;
      for(int& e : re) e = g.R(-sp, sp); for(int& e : ce) e = g.R(-sp, sp);
      for(int i = 0; i < L.m; i++) { for(int j = 0; j < L.n; j++) L.A[i][j] = std::ldexp(L.A[i][j], re[i] + ce[j]);
         if(L.lhs[i] > -infinity) L.lhs[i] = std::ldexp(L.lhs[i], re[i]); if(L.rhs[i] < infinity) L.rhs[i] = std::ldexp(L.rhs[i], re[i]); }
      for(int j = 0; j < L.n; j++) { if(L.lo[j] > -infinity) L.lo[j] = std::ldexp(L.lo[j], -ce[j]); if(L.up[j] < infinity) L.up[j] = std::ldexp(L.up[j], -ce[j]);
         L.c[j] = std::ldexp(L.c[j], ce[j]); L.x[j] = std::ldexp(L.x[j], -ce[j]); L.d[j] = std::ldexp(L.d[j], ce[j]);
         if(!L.ray.empty()) L.ray[j] = std::ldexp(L.ray[j], -ce[j]); }
      for(int i = 0; i < L.m; i++) { if(i < (int)L.y.size()) L.y[i] = std::ldexp(L.y[i], -re[i]); if(!L.farkas.empty()) L.farkas[i] = std::ldexp(L.farkas[i], -re[i]); }
   }
   return L;
}

static std::string spRowOf(const LPData& L, int i, DSVector& v)
{
   std::vector<std::pair<int, std::string>> e; v.clear();
   for(int j = 0; j < L.n; j++) if(L.A[i][j] != 0) { v.add(j, L.A[i][j]); e.push_back({j, qd(L.A[i][j])}); }
   return jsp(e);
}
// enter the LP through addColsReal (empty columns) + addRowsReal and announce the witness
static void loadLP(Ctx& c, int o, const LPData& L, bool oneByOne)
{
   SoPlex& s = *c.objs[o];
   setInt(c, o, "OBJSENSE", SoPlex::OBJSENSE, L.sense);
   if(oneByOne)
   {
      for(int j = 0; j < L.n; j++) { DSVector e; s.addColReal(LPCol(L.c[j], e, L.up[j], L.lo[j])); modEvent(c, o, "addCol", colJson(L.c[j], L.lo[j], "[]", L.up[j])); }
      for(int i = 0; i < L.m; i++) { DSVector v; std::string vj = spRowOf(L, i, v); s.addRowReal(LPRow(L.lhs[i], v, L.rhs[i])); modEvent(c, o, "addRow", rowJson(L.lhs[i], vj, L.rhs[i])); }
   }
   else
   {
      LPColSet cs; std::ostringstream cj; cj << "[";
      for(int j = 0; j < L.n; j++) { DSVector e; cs.add(L.c[j], L.lo[j], e, L.up[j]); cj << (j ? "," : "") << colJson(L.c[j], L.lo[j], "[]", L.up[j]); }
      cj << "]"; s.addColsReal(cs); modEvent(c, o, "addCols", "{\"cols\":" + cj.str() + "}");
      LPRowSet rs; std::ostringstream rj; rj << "[";
      for(int i = 0; i < L.m; i++) { DSVector v; std::string vj = spRowOf(L, i, v); rs.add(L.lhs[i], v, L.rhs[i]); rj << (i ? "," : "") << rowJson(L.lhs[i], vj, L.rhs[i]); }
      rj << "]"; s.addRowsReal(rs); modEvent(c, o, "addRows", "{\"rows\":" + rj.str() + "}");
   }
}
static void witness(Ctx& c, int o, const LPData& L)
{
   J ev; ev.s("a", "witness").i("o", o).s("kind", L.kind);
   std::vector<double> act(L.m);
   for(int i = 0; i < L.m; i++) act[i] = dotRow(L, i, L.x);
   if(L.kind == "OPT") ev.raw("sol", "{\"x\":" + jdbl(L.x) + ",\"s\":" + jdbl(act) + ",\"y\":" + jdbl(L.y) + ",\"d\":" + jdbl(L.d) + "}");
   else ev.raw("sol", "{\"x\":[],\"s\":[],\"y\":[],\"d\":[]}");
   ev.raw("x", L.kind == "UNB" ? jdbl(L.x) : "[]").raw("ray", L.kind == "UNB" ? jdbl(L.ray) : "[]");
   ev.raw("farkas", L.kind == "INF" ? jdbl(L.farkas) : "[]");
   emit(c, o, ev);
}
// core family: the configuration space in which completeness is claimed (see DESIGN.md section 4 C01);
// exotic = the full product of all algorithmic parameters (soundness only)
static thread_local bool g_exotic = false;
static void fullConfig(Ctx& c, int o)
{
   static const int corePricer[] = {SoPlex::PRICER_AUTO, SoPlex::PRICER_DANTZIG, SoPlex::PRICER_DEVEX, SoPlex::PRICER_QUICKSTEEP, SoPlex::PRICER_STEEP};
   static const int coreScaler[] = {SoPlex::SCALER_OFF, SoPlex::SCALER_UNIEQUI, SoPlex::SCALER_BIEQUI, SoPlex::SCALER_GEO1, SoPlex::SCALER_GEO8, SoPlex::SCALER_GEOEQUI};
   setInt(c, o, "ALGORITHM", SoPlex::ALGORITHM, c.rng.R(0, 1));
   setInt(c, o, "FACTOR_UPDATE_TYPE", SoPlex::FACTOR_UPDATE_TYPE, c.rng.R(0, 1));
   setBool(c, o, "PERSISTENTSCALING", SoPlex::PERSISTENTSCALING, c.rng.coin());
   setInt(c, o, "SIMPLIFIER", SoPlex::SIMPLIFIER, c.rng.coin() ? SoPlex::SIMPLIFIER_OFF : SoPlex::SIMPLIFIER_INTERNAL);
   setBool(c, o, "ENSURERAY", SoPlex::ENSURERAY, c.rng.coin());
   if(g_exotic)
   {
      setInt(c, o, "REPRESENTATION", SoPlex::REPRESENTATION, c.rng.R(0, 2));
      setInt(c, o, "PRICER", SoPlex::PRICER, c.rng.R(0, 5));
      setInt(c, o, "RATIOTESTER", SoPlex::RATIOTESTER, c.rng.R(0, 3));
      setInt(c, o, "SCALER", SoPlex::SCALER, c.rng.R(0, 6));
      setInt(c, o, "STARTER", SoPlex::STARTER, c.rng.R(0, 3));
      setInt(c, o, "SOLUTION_POLISHING", SoPlex::SOLUTION_POLISHING, c.rng.R(0, 2));
      if(c.rng.coin(1, 3)) setBool(c, o, "FULLPERTURBATION", SoPlex::FULLPERTURBATION, true);
      if(c.rng.coin(1, 3)) setBool(c, o, "ROWBOUNDFLIPS", SoPlex::ROWBOUNDFLIPS, true);
   }
   else
   {
      setInt(c, o, "REPRESENTATION", SoPlex::REPRESENTATION, c.rng.coin() ? SoPlex::REPRESENTATION_AUTO : SoPlex::REPRESENTATION_COLUMN);
      setInt(c, o, "PRICER", SoPlex::PRICER, corePricer[c.rng.R(0, 4)]);
      setInt(c, o, "RATIOTESTER", SoPlex::RATIOTESTER, c.rng.coin() ? SoPlex::RATIOTESTER_FAST : SoPlex::RATIOTESTER_BOUNDFLIPPING);
      setInt(c, o, "SCALER", SoPlex::SCALER, coreScaler[c.rng.R(0, 5)]);
   }
}
// one LP of a known class per execution, solved under `len` random configurations (new object each time)
static void wlCert(Ctx& c, int nexec, int len, int maxDim, int spread, int infunbHeavy = 0)
{
   static const char* kinds0[] = {"OPT", "OPT", "INF", "UNB"};
   static const char* kinds1[] = {"OPT", "INF", "INF", "UNB"};
   const char** kinds = infunbHeavy ? kinds1 : kinds0;
   for(int e = 0; e < nexec; e++)
   {
      T().line("{\"a\":\"Reset\"}");
      c.objs.clear(); c.nextId = 0;
      LPData L = genWitnessed(c.rng, maxDim, kinds[c.rng.R(0, 3)], spread);
      for(int k = 0; k < len; k++)
      {
         int o = createObj(c);
         if(k > 0 || c.rng.coin()) fullConfig(c, o);
         if(c.rng.coin(1, 3)) setReal(c, o, "OBJ_OFFSET", SoPlex::OBJ_OFFSET, (double)c.rng.R(-5, 5));
         loadLP(c, o, L, c.rng.coin(1, 4));
         witness(c, o, L);
         SolveOpts so; so.complete = !g_exotic; optimize(c, o, so);
         if(c.rng.coin(1, 3)) queryBasis(c, o);
         if(c.rng.coin(1, 4)) { SolveOpts so2; so2.complete = !g_exotic; optimize(c, o, so2); }      // warm re-solve of the unmodified object
         c.objs.erase(o);
         { J ev; ev.s("a", "destroy").i("o", o); emit(c, o, ev); }
      }
   }
}

// ---------------------------------------------------------------- rational / GMP interface (C07)
struct QV { Rational v; std::string s; };
static QV qv(const Rational& r) { QV q; q.v = r; q.s = qrat(r); return q; }
struct GenQ
{
   Rng& g;
   QV fin()
   {
      switch(g.R(0, 9))
      {
      case 0: return qv(Rational(1) / Rational(3));
      case 1: return qv(Rational(-2) / Rational(7));
      case 2: { Rational t(10); Rational r(1); for(int i = 0; i < 30; i++) r *= t; return qv(Rational(1) / r); }       // 1e-30
      case 3: { Rational t(10); Rational r(1); for(int i = 0; i < 30; i++) r *= t; return qv(r / Rational(3)); }       // ~3.3e29, not a double
      case 4: { Rational r(1); Rational t(2); for(int i = 0; i < 1080; i++) r /= t; return qv(Rational(5) * r); }      // denormal scale
      case 5: return qv(Rational(g.R(-3, 3)) + Rational(1) / Rational(1024));
      default: return qv(Rational(g.R(-3, 3)));
      }
   }
   QV coef() { QV q; do q = fin(); while(q.v == 0); return q; }
   QV cost() { return fin(); }
   QV lower() { return g.coin(1, 4) ? qv(Rational(-infinity)) : fin(); }
   QV upperFrom(const QV& lo)
   {
      if(g.coin(1, 4)) return qv(Rational(infinity));
      if(lo.v <= Rational(-infinity)) return fin();
      return qv(lo.v + Rational(g.R(0, 4)) + (g.coin(1, 3) ? Rational(1) / Rational(3) : Rational(0)));
   }
};
static DSVectorRational randVecQ(Ctx& c, GenQ& gen, int dim, int extra, std::string& js)
{
   DSVectorRational v; std::vector<std::pair<int, std::string>> e;
   for(int j = 0; j < dim + extra; j++) { if(!c.rng.coin()) continue; QV x = gen.coef(); v.add(j, x.v); e.push_back({j, x.s}); }
   js = jsp(e); return v;
}
static void modEventQ(Ctx& c, int o, const char* name, const char* via, const std::string& g, const std::string& permOut = "[]")
{
   c.modsSinceBasis[o]++;
   J ev; ev.s("a", "mod").i("o", o).s("name", name).s("via", via).raw("g", g).raw("permOut", permOut);
   emit(c, o, ev);
}
static std::string qvec(const VectorRational& v) { return jarr(v.dim(), [&](int i) { return jq(qrat(v[i])); }); }
static void sidesQ(Ctx& c, GenQ& gen, QV& l, QV& r) { l = gen.lower(); r = gen.upperFrom(l); if(c.rng.coin(1, 6) && l.v > Rational(-infinity)) r = l; }
struct MpqArr
{
   std::vector<mpq_t*> owned; 
   mpq_t* make(const std::vector<Rational>& vals) { mpq_t* a = new mpq_t[vals.size() + 1]; for(size_t i = 0; i <= vals.size(); i++) mpq_init(a[i]); for(size_t i = 0; i < vals.size(); i++) mpq_set(a[i], vals[i].backend().data()); owned.push_back(a); sizes.push_back(vals.size() + 1); return a; }
   std::vector<size_t> sizes;
   ~MpqArr() { for(size_t k = 0; k < owned.size(); k++) { for(size_t i = 0; i < sizes[k]; i++) mpq_clear(owned[k][i]); delete[] owned[k]; } }
};

static bool randomModRat(Ctx& c, int o, GenQ& gen, int maxDim)
{
   SoPlex& s = *c.objs[o];
   int nr = s.numRowsRational(), nc = s.numColsRational();
   int a = c.rng.R(0, 34);
   std::string vj;
   pending() = "modRat case " + std::to_string(a);
   switch(a)
   {
   case 0: { if(nr >= maxDim) return false; QV l, r; sidesQ(c, gen, l, r);
      DSVectorRational v = randVecQ(c, gen, nc, (nc < maxDim && c.rng.coin(1, 5)) ? 1 : 0, vj);
      s.addRowRational(LPRowRational(l.v, v, r.v));
      J g; g.s("lhs", l.s).raw("vec", vj).s("rhs", r.s); modEventQ(c, o, "addRow", "rat", g.str()); return true; }
   case 1: { if(nr + 2 > maxDim) return false; int k = c.rng.R(0, 2); LPRowSetRational set; std::ostringstream rows; rows << "[";
      for(int t = 0; t < k; t++) { QV l, r; sidesQ(c, gen, l, r); DSVectorRational v = randVecQ(c, gen, nc, 0, vj); set.add(l.v, v, r.v);
         J g; g.s("lhs", l.s).raw("vec", vj).s("rhs", r.s); rows << (t ? "," : "") << g.str(); }
      rows << "]"; s.addRowsRational(set); modEventQ(c, o, "addRows", "rat", "{\"rows\":" + rows.str() + "}"); return true; }
   case 2: { if(nc >= maxDim) return false; QV lo = gen.lower(), up = gen.upperFrom(lo), obj = gen.cost();
      DSVectorRational v = randVecQ(c, gen, nr, (nr < maxDim && c.rng.coin(1, 5)) ? 1 : 0, vj);
      s.addColRational(LPColRational(obj.v, v, up.v, lo.v));
      J g; g.s("obj", obj.s).s("lo", lo.s).raw("vec", vj).s("up", up.s); modEventQ(c, o, "addCol", "rat", g.str()); return true; }
   case 3: { if(nc + 2 > maxDim) return false; int k = c.rng.R(0, 2); LPColSetRational set; std::ostringstream cols; cols << "[";
      for(int t = 0; t < k; t++) { QV lo = gen.lower(), up = gen.upperFrom(lo), obj = gen.cost(); DSVectorRational v = randVecQ(c, gen, nr, 0, vj); set.add(obj.v, lo.v, v, up.v);
         J g; g.s("obj", obj.s).s("lo", lo.s).raw("vec", vj).s("up", up.s); cols << (t ? "," : "") << g.str(); }
      cols << "]"; s.addColsRational(set); modEventQ(c, o, "addCols", "rat", "{\"cols\":" + cols.str() + "}"); return true; }
   case 4: { if(nr == 0) return false; int i = c.rng.R(0, nr - 1); QV l, r; sidesQ(c, gen, l, r); DSVectorRational v = randVecQ(c, gen, nc, 0, vj);
      s.changeRowRational(i, LPRowRational(l.v, v, r.v));
      J g; g.i("i", i).s("lhs", l.s).raw("vec", vj).s("rhs", r.s); modEventQ(c, o, "changeRow", "rat", g.str()); return true; }
   case 5: { if(nc == 0) return false; int j = c.rng.R(0, nc - 1); QV lo = gen.lower(), up = gen.upperFrom(lo), obj = gen.cost(); DSVectorRational v = randVecQ(c, gen, nr, 0, vj);
      s.changeColRational(j, LPColRational(obj.v, v, up.v, lo.v));
      J g; g.i("i", j).s("obj", obj.s).s("lo", lo.s).raw("vec", vj).s("up", up.s); modEventQ(c, o, "changeCol", "rat", g.str()); return true; }
   case 6: { if(nr == 0) return false; int i = c.rng.R(0, nr - 1); QV v = gen.lower(); if(v.v > s.rhsRational(i)) v = qv(s.rhsRational(i));
      bool gmp = c.rng.coin(); if(gmp) s.changeLhsRational(i, &v.v.backend().data()); else s.changeLhsRational(i, v.v);
      J g; g.i("i", i).s("v", v.s); modEventQ(c, o, "changeLhs", gmp ? "gmp" : "rat", g.str()); return true; }
   case 7: { if(nr == 0) return false; int i = c.rng.R(0, nr - 1); QV v = gen.upperFrom(qv(s.lhsRational(i))); if(v.v < s.lhsRational(i)) v = qv(s.lhsRational(i));
      s.changeRhsRational(i, v.v); J g; g.i("i", i).s("v", v.s); modEventQ(c, o, "changeRhs", "rat", g.str()); return true; }
   case 8: { if(nr == 0) return false; int i = c.rng.R(0, nr - 1); QV l, r; sidesQ(c, gen, l, r);
      bool gmp = c.rng.coin(); if(gmp) s.changeRangeRational(i, &l.v.backend().data(), &r.v.backend().data()); else s.changeRangeRational(i, l.v, r.v);
      J g; g.i("i", i).s("lhs", l.s).s("rhs", r.s); modEventQ(c, o, "changeRange", gmp ? "gmp" : "rat", g.str()); return true; }
   case 9: { if(nc == 0) return false; int j = c.rng.R(0, nc - 1); QV v = gen.lower(); if(v.v > s.upperRational(j)) v = qv(s.upperRational(j));
      bool gmp = c.rng.coin(); if(gmp) s.changeLowerRational(j, &v.v.backend().data()); else s.changeLowerRational(j, v.v);
      J g; g.i("i", j).s("v", v.s); modEventQ(c, o, "changeLower", gmp ? "gmp" : "rat", g.str()); return true; }
   case 10: { if(nc == 0) return false; int j = c.rng.R(0, nc - 1); QV v = gen.upperFrom(qv(s.lowerRational(j))); if(v.v < s.lowerRational(j)) v = qv(s.lowerRational(j));
      bool gmp = c.rng.coin(); if(gmp) s.changeUpperRational(j, &v.v.backend().data()); else s.changeUpperRational(j, v.v);
      J g; g.i("i", j).s("v", v.s); modEventQ(c, o, "changeUpper", gmp ? "gmp" : "rat", g.str()); return true; }
   case 11: { if(nc == 0) return false; int j = c.rng.R(0, nc - 1); QV lo = gen.lower(), up = gen.upperFrom(lo);
      bool gmp = c.rng.coin(); if(gmp) s.changeBoundsRational(j, &lo.v.backend().data(), &up.v.backend().data()); else s.changeBoundsRational(j, lo.v, up.v);
      J g; g.i("i", j).s("lo", lo.s).s("up", up.s); modEventQ(c, o, "changeBounds", gmp ? "gmp" : "rat", g.str()); return true; }
   case 12: { if(nc == 0) return false; int j = c.rng.R(0, nc - 1); QV v = gen.cost();
      bool gmp = c.rng.coin(); if(gmp) s.changeObjRational(j, &v.v.backend().data()); else s.changeObjRational(j, v.v);
      J g; g.i("i", j).s("v", v.s); modEventQ(c, o, "changeObj", gmp ? "gmp" : "rat", g.str()); return true; }
   case 13: { if(nr == 0) return false; VectorRational v(nr); for(int i = 0; i < nr; i++) { QV t = gen.lower(); if(t.v > s.rhsRational(i)) t = qv(s.rhsRational(i)); v[i] = t.v; }
      s.changeLhsRational(v); modEventQ(c, o, "changeLhsV", "rat", "{\"v\":" + qvec(v) + "}"); return true; }
   case 14: { if(nr == 0) return false; VectorRational v(nr); for(int i = 0; i < nr; i++) { QV t = gen.upperFrom(qv(s.lhsRational(i))); if(t.v < s.lhsRational(i)) t = qv(s.lhsRational(i)); v[i] = t.v; }
      bool gmp = c.rng.coin();
      if(gmp) { std::vector<Rational> vals(nr); for(int i = 0; i < nr; i++) vals[i] = v[i]; MpqArr arr; mpq_t* p = arr.make(vals); s.changeRhsRational(p, nr); }
      else s.changeRhsRational(v);
      modEventQ(c, o, "changeRhsV", gmp ? "gmp" : "rat", "{\"v\":" + qvec(v) + "}"); return true; }
   case 15: { if(nr == 0) return false; VectorRational l(nr), r(nr); for(int i = 0; i < nr; i++) { QV a1, b1; sidesQ(c, gen, a1, b1); l[i] = a1.v; r[i] = b1.v; }
      s.changeRangeRational(l, r); modEventQ(c, o, "changeRangeV", "rat", "{\"lhs\":" + qvec(l) + ",\"rhs\":" + qvec(r) + "}"); return true; }
   case 16: { if(nc == 0) return false; VectorRational v(nc); for(int j = 0; j < nc; j++) { QV t = gen.lower(); if(t.v > s.upperRational(j)) t = qv(s.upperRational(j)); v[j] = t.v; }
      s.changeLowerRational(v); modEventQ(c, o, "changeLowerV", "rat", "{\"v\":" + qvec(v) + "}"); return true; }
   case 17: { if(nc == 0) return false; VectorRational v(nc); for(int j = 0; j < nc; j++) { QV t = gen.upperFrom(qv(s.lowerRational(j))); if(t.v < s.lowerRational(j)) t = qv(s.lowerRational(j)); v[j] = t.v; }
      s.changeUpperRational(v); modEventQ(c, o, "changeUpperV", "rat", "{\"v\":" + qvec(v) + "}"); return true; }
   case 18: { if(nc == 0) return false; VectorRational l(nc), u(nc); for(int j = 0; j < nc; j++) { QV a1 = gen.lower(), b1 = gen.upperFrom(a1); l[j] = a1.v; u[j] = b1.v; }
      s.changeBoundsRational(l, u); modEventQ(c, o, "changeBoundsV", "rat", "{\"lo\":" + qvec(l) + ",\"up\":" + qvec(u) + "}"); return true; }
   case 19: { if(nc == 0) return false; VectorRational v(nc); for(int j = 0; j < nc; j++) v[j] = gen.cost().v;
      s.changeObjRational(v); modEventQ(c, o, "changeObjV", "rat", "{\"v\":" + qvec(v) + "}"); return true; }
   case 20: { if(nr == 0 || nc == 0) return false; int i = c.rng.R(0, nr - 1), j = c.rng.R(0, nc - 1); QV v = c.rng.coin(1, 4) ? qv(Rational(0)) : gen.coef();
      bool gmp = c.rng.coin(); if(gmp) s.changeElementRational(i, j, &v.v.backend().data()); else s.changeElementRational(i, j, v.v);
      J g; g.i("i", i).i("j", j).s("v", v.s); modEventQ(c, o, "changeElement", gmp ? "gmp" : "rat", g.str()); return true; }
   case 21: { if(nr == 0) return false; int i = c.rng.R(0, nr - 1); s.removeRowRational(i); J g; g.i("i", i); modEventQ(c, o, "removeRow", "rat", g.str()); return true; }
   case 22: { if(nc <= 1) return false; int j = c.rng.R(0, nc - 1); s.removeColRational(j); J g; g.i("i", j); modEventQ(c, o, "removeCol", "rat", g.str()); return true; }
   case 23: { if(nr < 2) return false; std::vector<int> perm(nr); for(int i = 0; i < nr; i++) perm[i] = c.rng.coin(1, 3) ? -1 : c.rng.R(0, 5);
      std::string in = jints(perm); s.removeRowsRational(perm.data()); modEventQ(c, o, "removeRowsPerm", "rat", "{\"perm\":" + in + "}", jints(perm)); return true; }
   case 24: { if(nr < 2) return false; int n = c.rng.R(0, 2); std::vector<int> idx; for(int k = 0; k < n; k++) idx.push_back(c.rng.R(0, nr - 1));
      std::vector<int> perm(nr, 7); bool wp = c.rng.coin(); std::string in = jints(idx); idx.push_back(0);
      s.removeRowsRational(idx.data(), n, wp ? perm.data() : nullptr); modEventQ(c, o, "removeRowsIdx", "rat", "{\"idx\":" + in + "}", wp ? jints(perm) : "[]"); return true; }
   case 25: { if(nr < 2) return false; int st = c.rng.R(0, nr - 1), en = c.rng.R(st, std::min(nr - 1, st + 1)); std::vector<int> perm(nr, 7); bool wp = c.rng.coin();
      s.removeRowRangeRational(st, en, wp ? perm.data() : nullptr); J g; g.i("start", st).i("end", en); modEventQ(c, o, "removeRowRange", "rat", g.str(), wp ? jints(perm) : "[]"); return true; }
   case 26: { if(nc < 3) return false; std::vector<int> perm(nc); for(int i = 0; i < nc; i++) perm[i] = c.rng.coin(1, 4) ? -1 : c.rng.R(0, 5);
      std::string in = jints(perm); s.removeColsRational(perm.data()); modEventQ(c, o, "removeColsPerm", "rat", "{\"perm\":" + in + "}", jints(perm)); return true; }
   case 27: { if(nc < 3) return false; int n = c.rng.R(0, 2); std::vector<int> idx; for(int k = 0; k < n; k++) idx.push_back(c.rng.R(0, nc - 1));
      std::vector<int> perm(nc, 7); bool wp = c.rng.coin(); std::string in = jints(idx); idx.push_back(0);
      s.removeColsRational(idx.data(), n, wp ? perm.data() : nullptr); modEventQ(c, o, "removeColsIdx", "rat", "{\"idx\":" + in + "}", wp ? jints(perm) : "[]"); return true; }
   case 28: { if(nc < 3) return false; int st = c.rng.R(0, nc - 1), en = c.rng.R(st, std::min(nc - 1, st + 1)); std::vector<int> perm(nc, 7); bool wp = c.rng.coin();
      s.removeColRangeRational(st, en, wp ? perm.data() : nullptr); J g; g.i("start", st).i("end", en); modEventQ(c, o, "removeColRange", "rat", g.str(), wp ? jints(perm) : "[]"); return true; }
   case 29: { if(!c.rng.coin(1, 8)) return false; s.clearLPRational(); modEventQ(c, o, "clearLP", "rat", "{}"); return true; }
   case 30: { // addRowRational(mpq)
      if(nr >= maxDim) return false; QV l, r; sidesQ(c, gen, l, r);
      std::vector<Rational> vals; std::vector<int> idx; std::vector<std::pair<int, std::string>> e;
      for(int j = 0; j < nc; j++) if(c.rng.coin()) { QV x = gen.coef(); vals.push_back(x.v); idx.push_back(j); e.push_back({j, x.s}); }
      MpqArr arr; mpq_t* pv = arr.make(vals); mpq_t* pl = arr.make({l.v}); mpq_t* pr = arr.make({r.v}); idx.push_back(0);
      s.addRowRational(pl, pv, idx.data(), (int)vals.size(), pr);
      J g; g.s("lhs", l.s).raw("vec", jsp(e)).s("rhs", r.s); modEventQ(c, o, "addRow", "gmp", g.str()); return true; }
   case 31: { // addColRational(mpq)
      if(nc >= maxDim) return false; QV lo = gen.lower(), up = gen.upperFrom(lo), obj = gen.cost();
      std::vector<Rational> vals; std::vector<int> idx; std::vector<std::pair<int, std::string>> e;
      for(int i = 0; i < nr; i++) if(c.rng.coin()) { QV x = gen.coef(); vals.push_back(x.v); idx.push_back(i); e.push_back({i, x.s}); }
      MpqArr arr; mpq_t* pv = arr.make(vals); mpq_t* po = arr.make({obj.v}); mpq_t* pl = arr.make({lo.v}); mpq_t* pu = arr.make({up.v}); idx.push_back(0);
      s.addColRational(po, pl, pv, idx.data(), (int)vals.size(), pu);
      J g; g.s("obj", obj.s).s("lo", lo.s).raw("vec", jsp(e)).s("up", up.s); modEventQ(c, o, "addCol", "gmp", g.str()); return true; }
   case 32: { // addRowsRational(mpq arrays)
      if(nr + 2 > maxDim) return false; int k = c.rng.R(1, 2);
      std::vector<Rational> vals, ls, rs; std::vector<int> idx, starts, lens; std::ostringstream rows; rows << "[";
      for(int t = 0; t < k; t++) { QV l, r; sidesQ(c, gen, l, r); ls.push_back(l.v); rs.push_back(r.v); starts.push_back((int)vals.size()); std::vector<std::pair<int, std::string>> e;
         for(int j = 0; j < nc; j++) if(c.rng.coin()) { QV x = gen.coef(); vals.push_back(x.v); idx.push_back(j); e.push_back({j, x.s}); }
         lens.push_back((int)vals.size() - starts.back()); J g; g.s("lhs", l.s).raw("vec", jsp(e)).s("rhs", r.s); rows << (t ? "," : "") << g.str(); }
      rows << "]"; MpqArr arr; mpq_t* pv = arr.make(vals); mpq_t* pl = arr.make(ls); mpq_t* pr = arr.make(rs); idx.push_back(0);
      s.addRowsRational(pl, pv, idx.data(), starts.data(), lens.data(), k, (int)vals.size(), pr);
      modEventQ(c, o, "addRows", "gmp", "{\"rows\":" + rows.str() + "}"); return true; }
   case 33: { // addColsRational(mpq arrays)
      if(nc + 2 > maxDim) return false; int k = c.rng.R(1, 2);
      std::vector<Rational> vals, os, ls, us; std::vector<int> idx, starts, lens; std::ostringstream cols; cols << "[";
      for(int t = 0; t < k; t++) { QV lo = gen.lower(), up = gen.upperFrom(lo), obj = gen.cost(); os.push_back(obj.v); ls.push_back(lo.v); us.push_back(up.v); starts.push_back((int)vals.size()); std::vector<std::pair<int, std::string>> e;
         for(int i = 0; i < nr; i++) if(c.rng.coin()) { QV x = gen.coef(); vals.push_back(x.v); idx.push_back(i); e.push_back({i, x.s}); }
         lens.push_back((int)vals.size() - starts.back()); J g; g.s("obj", obj.s).s("lo", lo.s).raw("vec", jsp(e)).s("up", up.s); cols << (t ? "," : "") << g.str(); }
      cols << "]"; MpqArr arr; mpq_t* pv = arr.make(vals); mpq_t* po = arr.make(os); mpq_t* pl = arr.make(ls); mpq_t* pu = arr.make(us); idx.push_back(0);
      s.addColsRational(po, pl, pv, idx.data(), starts.data(), lens.data(), k, (int)vals.size(), pu);
      modEventQ(c, o, "addCols", "gmp", "{\"cols\":" + cols.str() + "}"); return true; }
   case 34: { if(nr == 0) return false; int i = c.rng.R(0, nr - 1); QV v = gen.upperFrom(qv(s.lhsRational(i))); if(v.v < s.lhsRational(i)) v = qv(s.lhsRational(i));
      s.changeRhsRational(i, v.v); J g; g.i("i", i).s("v", v.s); modEventQ(c, o, "changeRhs", "rat", g.str()); return true; }
   }
   return false;
}
static void syncCall(Ctx& c, int o, bool real)
{
   if(real) c.objs[o]->syncLPReal(); else c.objs[o]->syncLPRational();
   if(real) c.modsSinceBasis[o]++;
   J ev; ev.s("a", "sync").i("o", o).s("which", real ? "real" : "rational"); emit(c, o, ev);
}
// C07: interleavings of real-interface and rational-interface modifications under the three sync modes
static void wlSync(Ctx& c, int nexec, int len)
{
   for(int e = 0; e < nexec; e++)
   {
      T().line("{\"a\":\"Reset\"}");
      c.objs.clear(); c.nextId = 0;
      Gen gen{c.rng, c.rng.coin(1, 3) ? 2 : 0}; GenQ genq{c.rng};
      int o = createObj(c);
      setInt(c, o, "OBJSENSE", SoPlex::OBJSENSE, c.rng.coin() ? -1 : 1);
      int maxDim = c.rng.R(2, 5);
      // some real-only prefix, then switch the mode
      int pre = c.rng.R(0, 6);
      for(int k = 0; k < pre; k++) { int tries = 0; while(!randomModReal(c, o, gen, maxDim) && ++tries < 50) {} }
      setInt(c, o, "SYNCMODE", SoPlex::SYNCMODE, c.rng.coin(2, 3) ? SoPlex::SYNCMODE_AUTO : SoPlex::SYNCMODE_MANUAL);
      for(int step = 0; step < len; step++)
      {
         int mode = c.objs[o]->intParam(SoPlex::SYNCMODE);
         int k = c.rng.R(0, 99);
         if(k < 40) { int tries = 0; while(!randomModReal(c, o, gen, maxDim) && ++tries < 50) {} }
         else if(k < 80) { if(mode == SoPlex::SYNCMODE_ONLYREAL) continue; int tries = 0; while(!randomModRat(c, o, genq, maxDim) && ++tries < 50) {} }
         else if(k < 85) { SoPlex& s = *c.objs[o]; if(s.numRows() == 0 || s.numCols() == 0) continue;        // a floating-point solve in between: with persistent scaling the stored real LP is scaled afterwards
                           SolveOpts so; so.complete = false; optimize(c, o, so); }
         else if(k < 91) syncCall(c, o, c.rng.coin());
         else if(k < 94) setInt(c, o, "OBJSENSE", SoPlex::OBJSENSE, c.rng.coin() ? -1 : 1);
         else if(k < 96) setReal(c, o, "OBJ_OFFSET", SoPlex::OBJ_OFFSET, (double)c.rng.R(-3, 3));
         else
         {
            // switch the sync mode mid-history (MANUAL -> AUTO only right after an explicit sync: the code does not
            // synchronise on that switch, see DESIGN.md section 6 no. 10)
            int to = c.rng.R(0, 2);
            if(mode == SoPlex::SYNCMODE_MANUAL && to == SoPlex::SYNCMODE_AUTO) syncCall(c, o, false);
            setInt(c, o, "SYNCMODE", SoPlex::SYNCMODE, to);
         }
      }
   }
}

// ---------------------------------------------------------------- C17: copies are equal and independent; solves are deterministic
static std::string solJson(SoPlex& s)
{
   int nr = s.numRows(), nc = s.numCols(); VectorBase<double> x(nc), sl(nr), y(nr), d(nc), ray(nc), fk(nr);
   // the proofs are part of what a copy must reproduce (flag AND vector)
   bool hr = s.hasPrimalRay(), hf = s.hasDualFarkas(); bool gr = hr && s.getPrimalRay(ray), gf = hf && s.getDualFarkas(fk);
   std::string proofs = std::string(",\"hasRay\":") + (hr ? "true" : "false") + ",\"ray\":" + (gr ? dvec(ray) : std::string("[]")) + ",\"hasFarkas\":" + (hf ? "true" : "false") + ",\"farkas\":" + (gf ? dvec(fk) : std::string("[]"));
   if(!s.hasSol()) return "{\"hasSol\":false" + proofs + "}";
   bool a = s.getPrimal(x), b = s.getSlacksReal(sl), e = s.getDual(y), f = s.getRedCost(d);
   J j; j.b("hasSol", true).q("obj", s.objValueReal()).raw("x", a ? dvec(x) : "[]").raw("s", b ? dvec(sl) : "[]").raw("y", e ? dvec(y) : "[]").raw("d", f ? dvec(d) : "[]");
   std::string r = j.str(); r.pop_back(); return r + proofs + "}";
}
static int copyObj(Ctx& c, int src, bool assign, int into = -1)
{
   int id = into >= 0 ? into : c.nextId++;
   if(assign) *c.objs[id] = *c.objs[src];
   else c.objs[id].reset(new SoPlex(*c.objs[src]));
   c.modsSinceBasis[id] = c.modsSinceBasis[src]; c.noInternal[id] = true;
   J ev; ev.s("a", assign ? "assign" : "copy").i("o", id).i("src", src).raw("srcSol", solJson(*c.objs[src])).raw("dstSol", solJson(*c.objs[id]));
   emit(c, id, ev);
   return id;
}
static void destroyObj(Ctx& c, int o)
{
   c.objs.erase(o);
   J ev; ev.s("a", "destroy").i("o", o); emit(c, o, ev);
}
static void wlCopy(Ctx& c, int nexec, int len)
{
   for(int e = 0; e < nexec; e++)
   {
      T().line("{\"a\":\"Reset\"}");
      c.objs.clear(); c.nextId = 0; c.logOthers = true;
      Gen gen{c.rng, 0};
      // a copy of an object that has not been solved yet must solve exactly like its source (same LP, same settings, same
      // seed, no basis): the two solves carry the same determinism key
      if(c.rng.coin())
      {
         int a0 = createObj(c); fullConfig(c, a0);
         if(c.rng.coin()) { setInt(c, a0, "REPRESENTATION", SoPlex::REPRESENTATION, SoPlex::REPRESENTATION_ROW); setInt(c, a0, "ALGORITHM", SoPlex::ALGORITHM, SoPlex::ALGORITHM_PRIMAL); setInt(c, a0, "RATIOTESTER", SoPlex::RATIOTESTER, SoPlex::RATIOTESTER_BOUNDFLIPPING); }
         LPData L0;
         if(c.rng.coin()) L0 = genWitnessed(c.rng, 7, c.rng.coin(3, 4) ? "OPT" : (c.rng.coin() ? "INF" : "UNB"), 0);
         else
         {
            // boxed columns and ranged rows around the feasible point 0 (finite optimum, long steps / bound flips possible), more rows than columns
            L0.n = c.rng.R(3, 7); L0.m = c.rng.R(L0.n + 1, 2 * L0.n + 2); L0.sense = 1; L0.kind = "OPT";
            for(int j = 0; j < L0.n; j++) { L0.c.push_back(c.rng.R(-3, 7)); L0.lo.push_back(0); L0.up.push_back(c.rng.R(1, 4)); }
            L0.A.assign(L0.m, std::vector<double>(L0.n, 0.0));
            for(int i = 0; i < L0.m; i++) { for(int j = 0; j < L0.n; j++) if(c.rng.coin()) L0.A[i][j] = c.rng.R(-2, 4); L0.lhs.push_back(-c.rng.R(1, 5)); L0.rhs.push_back(c.rng.R(2, 10)); }
            setInt(c, a0, "SIMPLIFIER", SoPlex::SIMPLIFIER, SoPlex::SIMPLIFIER_OFF); setInt(c, a0, "ALGORITHM", SoPlex::ALGORITHM, c.rng.coin() ? SoPlex::ALGORITHM_DUAL : SoPlex::ALGORITHM_PRIMAL);
         }
         loadLP(c, a0, L0, false);
         int b0 = copyObj(c, a0, false);
         SolveOpts so; so.complete = false; so.detKey = "cp" + std::to_string(e);
         optimize(c, a0, so); optimize(c, b0, so);
         destroyObj(c, b0); destroyObj(c, a0);
      }
      int a = createObj(c);
      if(c.rng.coin()) fullConfig(c, a);
      LPData L = genWitnessed(c.rng, 4, c.rng.coin(3, 4) ? "OPT" : (c.rng.coin() ? "INF" : "UNB"), 0);
      loadLP(c, a, L, false);
      if(c.rng.coin(2, 3)) { SolveOpts so; so.complete = false; optimize(c, a, so); }
      if(c.rng.coin(1, 3)) { int tries = 0; while(!randomModReal(c, a, gen, 5) && ++tries < 50) {} }
      std::vector<int> live{a};
      for(int step = 0; step < len && !live.empty(); step++)
      {
         int k = c.rng.R(0, 99); int o = live[c.rng.R(0, (int)live.size() - 1)];
         SoPlex& s = *c.objs[o]; bool solvable = s.numCols() > 0 && s.numRows() > 0;
         if(k < 18 && live.size() < 3) live.push_back(copyObj(c, o, false));
         else if(k < 28 && live.size() >= 2) { int t = live[c.rng.R(0, (int)live.size() - 1)]; if(t != o) copyObj(c, o, true, t); }
         else if(k < 50) { int tries = 0; while(!randomModReal(c, o, gen, 5) && ++tries < 50) {} }
         else if(k < 70) { if(!solvable) continue; SolveOpts so; so.complete = false; optimize(c, o, so); }
         else if(k < 76) setReal(c, o, "EPSILON_ZERO", SoPlex::EPSILON_ZERO, c.rng.coin() ? 1e-12 : 1e-16);
         else if(k < 82) setReal(c, o, "FEASTOL", SoPlex::FEASTOL, c.rng.coin() ? 1e-7 : 1e-6);
         else if(k < 86) setInt(c, o, "OBJSENSE", SoPlex::OBJSENSE, c.rng.coin() ? -1 : 1);
         else if(k < 90) queryBasis(c, o);
         else if(k < 94) { clearBasis(c, o); if(solvable) { SolveOpts so; so.complete = false; optimize(c, o, so); } }
         else if(live.size() >= 2) { destroyObj(c, o); live.erase(std::find(live.begin(), live.end(), o)); }
      }
      // determinism: a fresh twin of every survivor (same LP, same settings, same seed) must reproduce the same result
      for(int o : live)
      {
         SoPlex& s = *c.objs[o]; if(s.numCols() == 0 || s.numRows() == 0) continue;
         std::string key = "twin" + std::to_string(e) + "-" + std::to_string(o);
         freshSolve(c, o, false, key, false);           // two fresh objects given the same LP ...
         freshSolve(c, o, false, key, false);
         freshSolve(c, o, false, "re" + key, true);     // ... and the same unmodified object again after clearBasis
      }
      c.logOthers = false;
   }
}

// ---------------------------------------------------------------- C16: limits and interrupts ("crash points" = every stop point k)
static int newLoaded(Ctx& c, const LPData& L, unsigned long cfgSeed)
{
   int o = createObj(c);
   Rng saved = c.rng; c.rng = Rng(cfgSeed); fullConfig(c, o); c.rng = saved;      // same configuration for all objects of an execution
   loadLP(c, o, L, false); witness(c, o, L);
   return o;
}
static void wlLimits(Ctx& c, int nexec, int len, int maxDim)
{
   for(int e = 0; e < nexec; e++)
   {
      T().line("{\"a\":\"Reset\"}");
      c.objs.clear(); c.nextId = 0;
      LPData L = genWitnessed(c.rng, maxDim, c.rng.coin(4, 5) ? "OPT" : (c.rng.coin() ? "INF" : "UNB"), 0);
      unsigned long cfg = c.rng.g();
      int base = newLoaded(c, L, cfg);
      SolveOpts so; optimize(c, base, so);
      int N = c.objs[base]->numIterations();
      double optval = c.objs[base]->objValueReal(); bool isOpt = c.objs[base]->status() == SPxSolver::OPTIMAL;
      destroyObj(c, base);
      // iteration limit k for every k = 0..N+1, then lift the limit and continue
      for(int k = 0; k <= std::min(N + 1, len); k++)
      {
         int o = newLoaded(c, L, cfg);
         setInt(c, o, "ITERLIMIT", SoPlex::ITERLIMIT, k);
         SolveOpts lim; lim.limited = true; lim.complete = false; optimize(c, o, lim); queryBasis(c, o);
         if(c.rng.coin(1, 3)) { optimize(c, o, lim); }                              // a second limited call continues from the stored basis
         setInt(c, o, "ITERLIMIT", SoPlex::ITERLIMIT, -1);
         SolveOpts fin; optimize(c, o, fin);
         destroyObj(c, o);
      }
      // time limit zero, interrupt flag raised before the first iteration
      {
         int o = newLoaded(c, L, cfg);
         setReal(c, o, "TIMELIMIT", SoPlex::TIMELIMIT, 0.0);
         SolveOpts lim; lim.limited = true; lim.complete = false; optimize(c, o, lim);
         setReal(c, o, "TIMELIMIT", SoPlex::TIMELIMIT, infinity);
         SolveOpts fin; optimize(c, o, fin); destroyObj(c, o);
      }
      {
         int o = newLoaded(c, L, cfg);
         volatile bool flag = true; SolveOpts lim; lim.limited = true; lim.complete = false; optimize(c, o, lim, &flag);
         SolveOpts fin; optimize(c, o, fin); destroyObj(c, o);
      }
      // two-stage stop: an iteration limit leaves a basis behind, then the interrupt flag is up while the limit is lifted
      // (warm start), then the flag is lowered; also with a finite objective limit that is never reached
      for(int variant = 0; variant < 2; variant++)
      {
         int o = newLoaded(c, L, cfg);
         if(variant == 0) { setInt(c, o, "ITERLIMIT", SoPlex::ITERLIMIT, std::min(1, N)); SolveOpts lim; lim.limited = true; lim.complete = false; optimize(c, o, lim); setInt(c, o, "ITERLIMIT", SoPlex::ITERLIMIT, -1); }
         else if(isOpt) { double far = optval + (L.sense == -1 ? 1.0 : -1.0) * (1e6 + std::fabs(optval)); if(L.sense == -1) setReal(c, o, "OBJLIMIT_UPPER", SoPlex::OBJLIMIT_UPPER, far); else setReal(c, o, "OBJLIMIT_LOWER", SoPlex::OBJLIMIT_LOWER, far); }
         volatile bool flag = true; SolveOpts lim; lim.limited = true; lim.complete = false; optimize(c, o, lim, &flag);
         flag = false; SolveOpts fin; fin.complete = (variant == 0); optimize(c, o, fin, &flag); destroyObj(c, o);
      }
      // objective limits on both sides of the optimum
      if(isOpt)
         for(int side = -1; side <= 1; side += 2)
         {
            int o = newLoaded(c, L, cfg);
            double lim = optval + side * (1.0 + std::fabs(optval) / 4);
            if(L.sense == -1) setReal(c, o, "OBJLIMIT_UPPER", SoPlex::OBJLIMIT_UPPER, lim); else setReal(c, o, "OBJLIMIT_LOWER", SoPlex::OBJLIMIT_LOWER, lim);
            SolveOpts l2; l2.limited = true; l2.complete = false; optimize(c, o, l2);
            if(L.sense == -1) setReal(c, o, "OBJLIMIT_UPPER", SoPlex::OBJLIMIT_UPPER, infinity); else setReal(c, o, "OBJLIMIT_LOWER", SoPlex::OBJLIMIT_LOWER, -infinity);
            SolveOpts fin; optimize(c, o, fin); destroyObj(c, o);
         }
   }
}

// ---------------------------------------------------------------- C09: scaling
static void wlScale(Ctx& c, int nexec, int len)
{
   for(int e = 0; e < nexec; e++)
   {
      T().line("{\"a\":\"Reset\"}");
      c.objs.clear(); c.nextId = 0;
      Gen gen{c.rng, 1};
      int o = createObj(c);
      setInt(c, o, "SCALER", SoPlex::SCALER, c.rng.R(1, 6));
      setBool(c, o, "PERSISTENTSCALING", SoPlex::PERSISTENTSCALING, c.rng.coin(3, 4));
      setInt(c, o, "SIMPLIFIER", SoPlex::SIMPLIFIER, c.rng.coin(2, 3) ? SoPlex::SIMPLIFIER_OFF : SoPlex::SIMPLIFIER_INTERNAL);
      setInt(c, o, "REPRESENTATION", SoPlex::REPRESENTATION, c.rng.coin() ? SoPlex::REPRESENTATION_AUTO : SoPlex::REPRESENTATION_COLUMN);
      setBool(c, o, "ENSURERAY", SoPlex::ENSURERAY, c.rng.coin());
      LPData L = genWitnessed(c.rng, 5, c.rng.coin(3, 4) ? "OPT" : (c.rng.coin() ? "INF" : "UNB"), 10);
      loadLP(c, o, L, false); witness(c, o, L);
      int maxDim = 6;
      for(int step = 0; step < len; step++)
      {
         int k = c.rng.R(0, 99); SoPlex& s = *c.objs[o]; bool solvable = s.numCols() > 0 && s.numRows() > 0;
         if(k < 8 && solvable && Probe::scaled(s))
         {
            // boundary value: the new side / bound / cost is bit-for-bit the value the library stores internally for it (the SCALED one),
            // so that a comparison of a user-level value with an internal one cannot go unnoticed
            const SPxLPBase<double>& in = Probe::realLP(s); int what = c.rng.R(0, 3), nr = s.numRows(), nc = s.numCols(); J g;
            if(what == 0) { int j = c.rng.R(0, nc - 1); double v = in.upper(j); if(!(v < infinity) || v < s.lowerReal(j) || v == s.upperReal(j)) continue; s.changeUpperReal(j, v); g.i("i", j).q("v", v); modEvent(c, o, "changeUpper", g.str()); }
            else if(what == 1) { int j = c.rng.R(0, nc - 1); double v = in.lower(j); if(!(v > -infinity) || v > s.upperReal(j) || v == s.lowerReal(j)) continue; s.changeLowerReal(j, v); g.i("i", j).q("v", v); modEvent(c, o, "changeLower", g.str()); }
            else if(what == 2) { int i = c.rng.R(0, nr - 1); double v = in.rhs(i); if(!(v < infinity) || v < s.lhsReal(i) || v == s.rhsReal(i)) continue; s.changeRhsReal(i, v); g.i("i", i).q("v", v); modEvent(c, o, "changeRhs", g.str()); }
            else { int i = c.rng.R(0, nr - 1); double v = in.lhs(i); if(!(v > -infinity) || v > s.rhsReal(i) || v == s.lhsReal(i)) continue; s.changeLhsReal(i, v); g.i("i", i).q("v", v); modEvent(c, o, "changeLhs", g.str()); }
         }
         else if(k < 45) { int tries = 0; while(!randomModReal(c, o, gen, maxDim) && ++tries < 50) {} }
         else if(k < 85) { if(!solvable) continue; SolveOpts so; so.complete = false; optimize(c, o, so); if(c.rng.coin(1, 4)) freshSolve(c, o); }
         else if(k < 92) queryBasis(c, o);
         else if(k < 96) setInt(c, o, "SCALER", SoPlex::SCALER, c.rng.R(0, 6));
         else setBool(c, o, "PERSISTENTSCALING", SoPlex::PERSISTENTSCALING, c.rng.coin());
      }
   }
}
static std::string bareProj(const SPxLPBase<double>& lp, bool raw)
{
   int nr = lp.nRows(), nc = lp.nCols(); J o;
   auto num = [&](double v) { return jq(raw ? qdraw(v) : qd(v)); };
   o.i("nr", nr).i("nc", nc).i("sense", lp.spxSense() == SPxLPBase<double>::MAXIMIZE ? 1 : -1);
   o.raw("rows", jarr(nr, [&](int i) { const SVectorBase<double>& v = lp.rowVector(i); std::vector<std::pair<int, std::string>> e; for(int k = 0; k < v.size(); k++) e.push_back({v.index(k), qdraw(v.value(k))}); return jsp(e); }));
   o.raw("cols", jarr(nc, [&](int j) { const SVectorBase<double>& v = lp.colVector(j); std::vector<std::pair<int, std::string>> e; for(int k = 0; k < v.size(); k++) e.push_back({v.index(k), qdraw(v.value(k))}); return jsp(e); }));
   o.raw("lhs", jarr(nr, [&](int i) { return jq(qd(lp.lhs(i))); })).raw("rhs", jarr(nr, [&](int i) { return jq(qd(lp.rhs(i))); }));
   o.raw("lo", jarr(nc, [&](int j) { return jq(qd(lp.lower(j))); })).raw("up", jarr(nc, [&](int j) { return jq(qd(lp.upper(j))); }));
   o.raw("maxobj", jarr(nc, [&](int j) { return jq(qdraw(lp.maxObj(j))); }));
   return o.str();
}
// every scaler on a bare SPxLPBase: scale, record the exponents, unscale; TLC checks scaled = orig * 2^e exactly and back = orig bit for bit
static void wlScalerBare(Ctx& c, int nexec, int len)
{
   SPxOut out; out.setVerbosity(SPxOut::ERROR);
   for(int e = 0; e < nexec; e++)
   {
      T().line("{\"a\":\"Reset\"}");
      for(int t = 0; t < len; t++)
      {
         LPData L = genWitnessed(c.rng, 6, "OPT", c.rng.R(4, 20));
         SPxLPBase<double> lp; auto tol = std::make_shared<Tolerances>(); lp.setTolerances(tol); lp.setOutstream(out);
         lp.changeSense(L.sense == 1 ? SPxLPBase<double>::MAXIMIZE : SPxLPBase<double>::MINIMIZE);
         for(int j = 0; j < L.n; j++) { DSVector ev; lp.addCol(LPCol(L.c[j], ev, L.up[j], L.lo[j])); }
         for(int i = 0; i < L.m; i++) { DSVector v; spRowOf(L, i, v); lp.addRow(LPRow(L.lhs[i], v, L.rhs[i])); }
         int which = c.rng.R(1, 6); if(which == 5) { bool emptyVec = false; for(int j = 0; j < lp.nCols(); j++) emptyVec = emptyVec || lp.colVector(j).size() == 0; for(int i = 0; i < lp.nRows(); i++) emptyVec = emptyVec || lp.rowVector(i).size() == 0; if(emptyVec) which = 6; }   // KF-03
         std::unique_ptr<SPxScaler<double>> sc;
         switch(which)
         {
         case 1: sc.reset(new SPxEquiliSC<double>(false)); break;
         case 2: sc.reset(new SPxEquiliSC<double>(true)); break;
         case 3: sc.reset(new SPxGeometSC<double>(false, 1)); break;
         case 4: sc.reset(new SPxGeometSC<double>(false, 8)); break;
         case 5: sc.reset(new SPxLeastSqSC<double>()); break;
         default: sc.reset(new SPxGeometSC<double>(true, 8)); break;
         }
         sc->setOutstream(out); sc->setTolerances(tol);
         pending() = "scalerBare " + std::to_string(which);
         std::string orig = bareProj(lp, true);
         sc->scale(lp, true);
         bool scaled = lp.isScaled();
         std::string rexp = jarr(lp.nRows(), [&](int i) { return std::to_string(scaled ? sc->getRowScaleExp(i) : 0); });
         std::string cexp = jarr(lp.nCols(), [&](int j) { return std::to_string(scaled ? sc->getColScaleExp(j) : 0); });
         std::string mid = bareProj(lp, true);
         if(scaled) sc->unscale(lp);
         std::string back = bareProj(lp, true);
         J ev; ev.s("a", "scalerBare").i("scaler", which).b("scaled", scaled).raw("orig", orig).raw("rexp", rexp).raw("cexp", cexp).raw("mid", mid).raw("back", back);
         T().line(ev.str());
      }
   }
}

// ---------------------------------------------------------------- C05: basis inverse / multiply queries
static void binvQueries(Ctx& c, int o)
{
   SoPlex& s = *c.objs[o]; int nr = s.numRows();
   if(!s.hasBasis() || nr == 0) return;
   auto ev0 = [&](const char* kind, int idx, bool unscale) { J ev; ev.s("a", "binv").i("o", o).s("kind", kind).i("idx", idx).b("unscale", unscale); return ev; };
   auto bindNow = [&]() { std::vector<int> b(nr + 1); s.getBasisInd(b.data()); return jints(b.data(), nr); };
   bool unscale = true;
   for(int r = 0; r < nr; r++)
   {
      std::vector<double> coef(nr, 0.0); std::vector<int> inds(nr, -7); int ninds = -5;
      bool sparse = c.rng.coin();
      pending() = "getBasisInverseRowReal";
      bool ret = s.getBasisInverseRowReal(r, coef.data(), sparse ? inds.data() : nullptr, sparse ? &ninds : nullptr, unscale);
      J ev = ev0("row", r, unscale); ev.b("ret", ret).raw("res", jdblraw(coef.data(), nr)).raw("vec", "[]").b("sparse", sparse).i("ninds", ninds)
         .raw("inds", sparse && ninds >= 0 ? jints(inds.data(), std::min(ninds, nr)) : "[]").raw("bind", bindNow());
      emit(c, o, ev);
   }
   for(int k = 0; k < nr; k++)
   {
      std::vector<double> coef(nr, 0.0); std::vector<int> inds(nr, -7); int ninds = -5;
      bool sparse = c.rng.coin();
      pending() = "getBasisInverseColReal";
      bool ret = s.getBasisInverseColReal(k, coef.data(), sparse ? inds.data() : nullptr, sparse ? &ninds : nullptr, unscale);
      J ev = ev0("col", k, unscale); ev.b("ret", ret).raw("res", jdblraw(coef.data(), nr)).raw("vec", "[]").b("sparse", sparse).i("ninds", ninds)
         .raw("inds", sparse && ninds >= 0 ? jints(inds.data(), std::min(ninds, nr)) : "[]").raw("bind", bindNow());
      emit(c, o, ev);
   }
   for(int t = 0; t < 2; t++)
   {
      std::vector<double> v(nr), sol(nr, 0.0); for(double& x : v) x = c.rng.R(-4, 4);
      std::vector<double> vin = v;
      pending() = "getBasisInverseTimesVecReal";
      bool ret = s.getBasisInverseTimesVecReal(v.data(), sol.data(), unscale);
      J ev = ev0("times", t, unscale); ev.b("ret", ret).raw("res", jdblraw(sol.data(), nr)).raw("vec", jdblraw(vin.data(), nr)).b("sparse", false).i("ninds", -1).raw("inds", "[]").raw("bind", bindNow());
      emit(c, o, ev);
   }
   for(int t = 0; t < 2; t++)
   {
      std::vector<double> v(nr); for(double& x : v) x = c.rng.R(-4, 4);
      std::vector<double> vin = v; bool transp = t == 1;
      pending() = transp ? "multBasisTranspose" : "multBasis";
      bool ret = transp ? s.multBasisTranspose(v.data(), unscale) : s.multBasis(v.data(), unscale);
      J ev = ev0(transp ? "multT" : "mult", t, unscale); ev.b("ret", ret).raw("res", jdblraw(v.data(), nr)).raw("vec", jdblraw(vin.data(), nr)).b("sparse", false).i("ninds", -1).raw("inds", "[]").raw("bind", bindNow());
      emit(c, o, ev);
   }
}
static void wlBinv(Ctx& c, int nexec, int len)
{
   for(int e = 0; e < nexec; e++)
   {
      T().line("{\"a\":\"Reset\"}");
      c.objs.clear(); c.nextId = 0;
      Gen gen{c.rng, 0};
      int o = createObj(c);
      setInt(c, o, "REPRESENTATION", SoPlex::REPRESENTATION, c.rng.R(0, 2));
      setInt(c, o, "SCALER", SoPlex::SCALER, c.rng.coin(1, 3) ? 0 : c.rng.R(1, 6));
      setBool(c, o, "PERSISTENTSCALING", SoPlex::PERSISTENTSCALING, c.rng.coin());
      setInt(c, o, "SIMPLIFIER", SoPlex::SIMPLIFIER, c.rng.coin() ? SoPlex::SIMPLIFIER_OFF : SoPlex::SIMPLIFIER_INTERNAL);
      LPData L = genWitnessed(c.rng, 5, c.rng.coin(3, 4) ? "OPT" : (c.rng.coin() ? "INF" : "UNB"), c.rng.coin() ? 8 : 0);
      loadLP(c, o, L, false); witness(c, o, L);
      for(int step = 0; step < len; step++)
      {
         int k = c.rng.R(0, 99); SoPlex& s = *c.objs[o]; bool solvable = s.numCols() > 0 && s.numRows() > 0;
         if(k < 45) { if(!solvable) continue; SolveOpts so; so.complete = false;
                      if(c.rng.coin(1, 4)) { setInt(c, o, "ITERLIMIT", SoPlex::ITERLIMIT, c.rng.R(0, 2)); so.limited = true; }
                      optimize(c, o, so); if(so.limited) setInt(c, o, "ITERLIMIT", SoPlex::ITERLIMIT, -1);
                      binvQueries(c, o); }
         else if(k < 70) { setRandomBasis(c, o); binvQueries(c, o); }
         else { int tries = 0; while(!randomModReal(c, o, gen, 6) && ++tries < 50) {} }
      }
   }
}

// ---------------------------------------------------------------- C03: exact (rational) solves
struct LPDataQ
{
   int n = 0, m = 0, sense = -1; std::string kind;
   std::vector<std::vector<Rational>> A; std::vector<Rational> lhs, rhs, lo, up, c, x, y, d, ray, farkas;
};
static Rational pickFactor(Rng& g)
{
   switch(g.R(0, 7))
   {
   case 0: return Rational(1) / Rational(3);
   case 1: return Rational(7) / Rational(2);
   case 2: { Rational r(1); for(int i = 0; i < 20; i++) r *= Rational(10); return Rational(1) / r; }   // 1e-20: triggers lifting
   case 3: { Rational r(1); for(int i = 0; i < 12; i++) r *= Rational(10); return r; }
   case 4: return Rational(3) / Rational(7);
   default: return Rational(1);
   }
}
// an exactly witnessed rational LP: integer construction, then rows and columns multiplied by rational factors
static LPDataQ genWitnessedQ(Rng& g, int maxDim, const std::string& kind, bool wild)
{
   LPData L = genWitnessed(g, maxDim, kind, 0);
   LPDataQ Q; Q.n = L.n; Q.m = L.m; Q.sense = L.sense; Q.kind = kind;
   std::vector<Rational> rf(L.m), cf(L.n);
   for(auto& f : rf) f = wild ? pickFactor(g) : (g.coin(1, 3) ? Rational(1) / Rational(3) : Rational(1));
   for(auto& f : cf) f = wild ? pickFactor(g) : (g.coin(1, 3) ? Rational(2) / Rational(7) : Rational(1));
   const Rational INF(infinity);
   auto fin = [&](double v) { return v < infinity && v > -infinity; };
   Q.A.assign(L.m, std::vector<Rational>(L.n));
   for(int i = 0; i < L.m; i++) for(int j = 0; j < L.n; j++) Q.A[i][j] = Rational(L.A[i][j]) * rf[i] * cf[j];
   for(int i = 0; i < L.m; i++) { Q.lhs.push_back(fin(L.lhs[i]) ? Rational(L.lhs[i]) * rf[i] : -INF); Q.rhs.push_back(fin(L.rhs[i]) ? Rational(L.rhs[i]) * rf[i] : INF); }
   for(int j = 0; j < L.n; j++) { Q.lo.push_back(fin(L.lo[j]) ? Rational(L.lo[j]) / cf[j] : -INF); Q.up.push_back(fin(L.up[j]) ? Rational(L.up[j]) / cf[j] : INF);
      Q.c.push_back(Rational(L.c[j]) * cf[j]); Q.x.push_back(Rational(L.x[j]) / cf[j]); Q.d.push_back(Rational(L.d[j]) * cf[j]);
      if(!L.ray.empty()) Q.ray.push_back(Rational(L.ray[j]) / cf[j]); }
   for(int i = 0; i < L.m; i++) { if(i < (int)L.y.size()) Q.y.push_back(Rational(L.y[i]) / rf[i]); if(!L.farkas.empty()) Q.farkas.push_back(Rational(L.farkas[i]) / rf[i]); }
   return Q;
}
static std::string qvecs(const std::vector<Rational>& v) { return jarr((int)v.size(), [&](int i) { return jq(qrat(v[i])); }); }
static void loadLPQ(Ctx& c, int o, const LPDataQ& Q)
{
   SoPlex& s = *c.objs[o];
   setInt(c, o, "OBJSENSE", SoPlex::OBJSENSE, Q.sense);
   LPColSetRational cs; std::ostringstream cj; cj << "[";
   for(int j = 0; j < Q.n; j++) { DSVectorRational e; cs.add(Q.c[j], Q.lo[j], e, Q.up[j]);
      J g; g.s("obj", qrat(Q.c[j])).s("lo", qrat(Q.lo[j])).raw("vec", "[]").s("up", qrat(Q.up[j])); cj << (j ? "," : "") << g.str(); }
   cj << "]"; s.addColsRational(cs); modEventQ(c, o, "addCols", "rat", "{\"cols\":" + cj.str() + "}");
   LPRowSetRational rs; std::ostringstream rj; rj << "[";
   for(int i = 0; i < Q.m; i++) { DSVectorRational v; std::vector<std::pair<int, std::string>> e;
      for(int j = 0; j < Q.n; j++) if(Q.A[i][j] != 0) { v.add(j, Q.A[i][j]); e.push_back({j, qrat(Q.A[i][j])}); }
      rs.add(Q.lhs[i], v, Q.rhs[i]); J g; g.s("lhs", qrat(Q.lhs[i])).raw("vec", jsp(e)).s("rhs", qrat(Q.rhs[i])); rj << (i ? "," : "") << g.str(); }
   rj << "]"; s.addRowsRational(rs); modEventQ(c, o, "addRows", "rat", "{\"rows\":" + rj.str() + "}");
}
static void witnessQ(Ctx& c, int o, const LPDataQ& Q)
{
   J ev; ev.s("a", "witnessQ").i("o", o).s("kind", Q.kind);
   std::vector<Rational> act(Q.m);
   for(int i = 0; i < Q.m; i++) { Rational a(0); for(int j = 0; j < Q.n; j++) a += Q.A[i][j] * Q.x[j]; act[i] = a; }
   if(Q.kind == "OPT") ev.raw("sol", "{\"x\":" + qvecs(Q.x) + ",\"s\":" + qvecs(act) + ",\"y\":" + qvecs(Q.y) + ",\"d\":" + qvecs(Q.d) + "}");
   else ev.raw("sol", "{\"x\":[],\"s\":[],\"y\":[],\"d\":[]}");
   ev.raw("x", Q.kind == "UNB" ? qvecs(Q.x) : "[]").raw("ray", Q.kind == "UNB" ? qvecs(Q.ray) : "[]").raw("farkas", Q.kind == "INF" ? qvecs(Q.farkas) : "[]");
   emit(c, o, ev);
}
static int optimizeQ(Ctx& c, int o, SolveOpts so)
{
   SoPlex& s = *c.objs[o];
   pending() = "optimizeQ";
   std::string pdig = paramsDigest(s);
   SPxSolver::Status st = s.optimize();
   int nr = s.numRowsRational(), nc = s.numColsRational();
   J r; r.i("status", (int)st).b("hasSol", s.hasSol());
   VectorRational x(nc), sl(nr), y(nr), d(nc); bool full = false;
   if(st == SPxSolver::OPTIMAL && s.hasSol()) full = s.getPrimalRational(x) && s.getSlacksRational(sl) && s.getDualRational(y) && s.getRedCostRational(d);
   r.b("full", full).s("objval", qrat(s.objValueRational()));
   if(full) r.raw("sol", "{\"x\":" + qvec(x) + ",\"s\":" + qvec(sl) + ",\"y\":" + qvec(y) + ",\"d\":" + qvec(d) + "}");
   else r.raw("sol", "{\"x\":[],\"s\":[],\"y\":[],\"d\":[]}");
   bool hasRay = s.hasPrimalRay(), hasFk = s.hasDualFarkas(); VectorRational ray(nc), fk(nr);
   if(hasRay) hasRay = s.getPrimalRayRational(ray);
   if(hasFk) hasFk = s.getDualFarkasRational(fk);
   r.b("hasRay", hasRay).raw("ray", hasRay ? qvec(ray) : "[]").b("hasFarkas", hasFk).raw("farkas", hasFk ? qvec(fk) : "[]");
   r.b("hasBasis", s.hasBasis());
   if(s.hasBasis()) { int rr = s.numRows(), cc = s.numCols(); std::vector<SPxSolver::VarStatus> br(rr + 1), bc(cc + 1); s.getBasis(br.data(), bc.data());
      r.raw("brow", statuses(br.data(), rr)).raw("bcol", statuses(bc.data(), cc)); }
   else r.raw("brow", "[]").raw("bcol", "[]");
   r.raw("bind", "[]").i("iters", s.numIterations()).i("refinements", s.numRefinements()).b("interrupted", false);
   c.modsSinceBasis[o] = 1;   // getBasisInd is not queried after exact solves
   J ev; ev.s("a", "optimizeQ").i("o", o).b("exact", true).b("limited", so.limited).b("complete", so.complete).s("pdig", pdig).s("detKey", "").b("wellScaled", g_wellScaled).raw("r", r.str());
   emit(c, o, ev);
   return (int)st;
}
static void exactConfig(Ctx& c, int o, int family)
{
   setInt(c, o, "SOLVEMODE", SoPlex::SOLVEMODE, SoPlex::SOLVEMODE_RATIONAL);
   setInt(c, o, "CHECKMODE", SoPlex::CHECKMODE, SoPlex::CHECKMODE_RATIONAL);
   setReal(c, o, "FEASTOL", SoPlex::FEASTOL, 0.0); setReal(c, o, "OPTTOL", SoPlex::OPTTOL, 0.0);
   // a solve that does not decide a <= 12x12 LP in 20 s is reported as undecided; the default timer measures the CPU time of the
   // whole PROCESS, which runs K times faster with K busy threads: the thread mode (C18) keeps the limit out of reach
   setReal(c, o, "TIMELIMIT", SoPlex::TIMELIMIT, g_threaded ? 20000.0 : 20.0);
   if(family == 1) { setInt(c, o, "RATFAC_MINSTALLS", SoPlex::RATFAC_MINSTALLS, 0); setBool(c, o, "ADAPT_TOLS_TO_MULTIPRECISION", SoPlex::ADAPT_TOLS_TO_MULTIPRECISION, true);
                     setBool(c, o, "ITERATIVE_REFINEMENT", SoPlex::ITERATIVE_REFINEMENT, false); }   // exact-pure-boosting.set
   if(family == 2)
   {
      // random settings of the exact-solver booleans that keep rational reconstruction or factorization enabled
      bool ratrec = c.rng.coin(), ratfac = ratrec ? c.rng.coin() : true;
      setBool(c, o, "RATREC", SoPlex::RATREC, ratrec); setBool(c, o, "RATFAC", SoPlex::RATFAC, ratfac);
      // LIFTING corrupts the heap (KF-13); in thread mode (C18) that would damage the other threads' objects as well
      { bool lift = c.rng.coin(); setBool(c, o, "LIFTING", SoPlex::LIFTING, lift && !g_threaded); } setBool(c, o, "EQTRANS", SoPlex::EQTRANS, c.rng.coin());
      setBool(c, o, "TESTDUALINF", SoPlex::TESTDUALINF, c.rng.coin()); setBool(c, o, "POWERSCALING", SoPlex::POWERSCALING, c.rng.coin());
      setBool(c, o, "RATFACJUMP", SoPlex::RATFACJUMP, c.rng.coin()); setBool(c, o, "RECOVERY_MECHANISM", SoPlex::RECOVERY_MECHANISM, c.rng.coin());
      setInt(c, o, "SIMPLIFIER", SoPlex::SIMPLIFIER, c.rng.coin() ? SoPlex::SIMPLIFIER_OFF : SoPlex::SIMPLIFIER_INTERNAL);
      setInt(c, o, "SCALER", SoPlex::SCALER, c.rng.R(0, 4));
   }
}
static void wlExact(Ctx& c, int nexec, int len, int maxDim)
{
   static const char* kinds[] = {"OPT", "OPT", "INF", "UNB"};
   for(int e = 0; e < nexec; e++)
   {
      T().line("{\"a\":\"Reset\"}");
      c.objs.clear(); c.nextId = 0;
      LPDataQ Q = genWitnessedQ(c.rng, maxDim, kinds[c.rng.R(0, 3)], c.rng.coin());
      for(int k = 0; k < len; k++)
      {
         int o = createObj(c);
         setInt(c, o, "SYNCMODE", SoPlex::SYNCMODE, c.rng.coin(3, 4) ? SoPlex::SYNCMODE_AUTO : SoPlex::SYNCMODE_MANUAL);
         int family = k == 0 ? 0 : c.rng.R(0, 2);
         exactConfig(c, o, family);
         if(c.rng.coin(1, 3)) setReal(c, o, "OBJ_OFFSET", SoPlex::OBJ_OFFSET, (double)c.rng.R(-3, 3));
         loadLPQ(c, o, Q); witnessQ(c, o, Q);
         if(c.objs[o]->intParam(SoPlex::SYNCMODE) == SoPlex::SYNCMODE_MANUAL) syncCall(c, o, true);
         SolveOpts so; so.complete = true; optimizeQ(c, o, so);
         if(c.rng.coin(1, 4)) optimizeQ(c, o, so);
         destroyObj(c, o);
      }
   }
}


// ---------------------------------------------------------------- C11 (second half): rational basis inverse queries on a solver basis
// (entries of an inverse are plain numbers: no infinity threshold)
static std::string ssq(const SSVectorRational& v, int n) { return jarr(n, [&](int i) { return jq(i < v.dim() ? qmpq(v[i].backend().data()) : std::string("nan")); }); }
static void binvQQueries(Ctx& c, int o)
{
   SoPlex& s = *c.objs[o]; int nr = s.numRowsRational();
   if(nr == 0) return;
   auto ev0 = [&](const char* kind, int idx) { J ev; ev.s("a", "binvq").i("o", o).s("kind", kind).i("idx", idx); return ev; };
   auto bindNow = [&](bool& ok) { DataArray<int> b; ok = s.getBasisIndRational(b); return ok ? jints(b.get_ptr(), b.size()) : std::string("[]"); };
   int which = c.rng.R(0, 9);
   if(which == 0) { pending() = "computeBasisInverseRational"; bool ret = s.computeBasisInverseRational(); bool ok; std::string b = bindNow(ok);
                    J ev = ev0("compute", 0); ev.b("ret", ret).raw("res", "[]").raw("vec", "[]").b("bindOK", ok).raw("bind", b); emit(c, o, ev); return; }
   if(which == 1) { pending() = "getBasisIndRational"; bool ok; std::string b = bindNow(ok);
                    J ev = ev0("ind", 0); ev.b("ret", ok).raw("res", "[]").raw("vec", "[]").b("bindOK", ok).raw("bind", b); emit(c, o, ev); return; }
   int idx = c.rng.R(0, nr - 1);
   SSVectorRational res(nr); bool ret; std::string vecj = "[]"; const char* kind;
   if(which < 5) { kind = "row"; pending() = "getBasisInverseRowRational"; ret = s.getBasisInverseRowRational(idx, res); }
   else if(which < 8) { kind = "col"; pending() = "getBasisInverseColRational"; ret = s.getBasisInverseColRational(idx, res); }
   else
   {
      kind = "times"; DSVectorRational rhs(nr); VectorRational dense(nr); dense.clear();
      for(int i = 0; i < nr; i++) if(c.rng.coin()) { Rational v = Rational(c.rng.R(-5, 5)) / Rational(c.rng.R(1, 4)); if(v != 0) { rhs.add(i, v); dense[i] = v; } }
      vecj = qvec(dense);
      pending() = "getBasisInverseTimesVecRational"; ret = s.getBasisInverseTimesVecRational(rhs, res);
   }
   bool ok; std::string b = bindNow(ok);
   J ev = ev0(kind, idx); ev.b("ret", ret).raw("res", ret ? ssq(res, nr) : std::string("[]")).raw("vec", vecj).b("bindOK", ok).raw("bind", b); emit(c, o, ev);
}
static void wlBinvQ(Ctx& c, int nexec, int len)
{
   static const char* kinds[] = {"OPT", "OPT", "OPT", "INF", "UNB"};
   for(int e = 0; e < nexec; e++)
   {
      T().line("{\"a\":\"Reset\"}");
      c.objs.clear(); c.nextId = 0;
      GenQ genq{c.rng}; Gen gen{c.rng, 0};
      int o = createObj(c);
      setInt(c, o, "SYNCMODE", SoPlex::SYNCMODE, SoPlex::SYNCMODE_AUTO);
      exactConfig(c, o, 0);
      // half of the executions let the exact solve END in the rational factorization (which then stays loaded for the queries),
      // with and without the equality transformation that appends slack columns for the duration of the solve
      if(c.rng.coin()) { setBool(c, o, "RATFAC", SoPlex::RATFAC, true); setInt(c, o, "RATFAC_MINSTALLS", SoPlex::RATFAC_MINSTALLS, 0); setBool(c, o, "RATREC", SoPlex::RATREC, false);
                         setBool(c, o, "EQTRANS", SoPlex::EQTRANS, c.rng.coin()); }
      LPDataQ Q = genWitnessedQ(c.rng, 4, kinds[c.rng.R(0, 4)], c.rng.coin());
      loadLPQ(c, o, Q); witnessQ(c, o, Q);
      for(int step = 0; step < len; step++)
      {
         int k = c.rng.R(0, 99); SoPlex& s = *c.objs[o]; bool solvable = s.numCols() > 0 && s.numRows() > 0;
         if(k < 15) { if(!solvable) continue; SolveOpts so; so.complete = false; optimizeQ(c, o, so); binvQQueries(c, o); binvQQueries(c, o); }
         else if(k < 30) { setRandomBasis(c, o); binvQQueries(c, o); }
         else if(k < 35) clearBasis(c, o);
         else if(k < 65) binvQQueries(c, o);
         else if(k < 85) { int tries = 0; while(!randomModRat(c, o, genq, 5) && ++tries < 50) {} }
         else { int tries = 0; while(!randomModReal(c, o, gen, 5) && ++tries < 50) {} }
      }
   }
}

static thread_local std::string g_tmpdir;
static void vAlarm(unsigned s) { if(!g_threaded) alarm(s); }
// ---------------------------------------------------------------- C20: the C interface, mirrored call by call on a C++ object
// Every step performs the C++ call on the mirror object (an ordinary event, validated by the specification) and then the
// C call on the C object ("ccall" event: C arguments, C results next to the mirror's results, projection of the C object).
#include "soplex_interface.h"
template <class T> struct Guarded
{
   static const int PAD = 4; std::vector<T> buf; int n; T sentinel;
   Guarded(int n_, T fill, T sent) : buf((size_t)(n_ + 2 * PAD), fill), n(n_), sentinel(sent) { for(int i = 0; i < PAD; i++) { buf[(size_t)i] = sent; buf[(size_t)(PAD + n + i)] = sent; } }
   T* p() { return buf.data() + PAD; }
   T& operator[](int i) { return buf[(size_t)(PAD + i)]; }
   bool ok() const { for(int i = 0; i < PAD; i++) if(buf[(size_t)i] != sentinel || buf[(size_t)(PAD + n + i)] != sentinel) return false; return true; }
};
typedef Guarded<double> GD; typedef Guarded<long> GL;
static const double DSENT = 12345.678901; static const long LSENT = 0x5a5a5a5a5aL;
static std::string jlongs(GL& a, int n) { return jarr(n, [&](int i) { return jq(std::to_string(a[i])); }); }
static std::string jgd(GD& a, int n) { return jarr(n, [&](int i) { return jq(qd(a[i])); }); }
static void ccall(Ctx& c, int oc, int om, const char* cname, const std::string& cargs, const std::string& g, const std::string& cres, const std::string& mres, bool canary)
{
   J ev; ev.s("a", "ccall").i("o", oc).i("mirror", om).s("cname", cname).raw("cargs", cargs).raw("g", g).raw("cres", cres).raw("mres", mres).b("canary", canary);
   emit(c, oc, ev);
}
static std::string fileBytesDigest(const std::string& fn) { std::ifstream f(fn, std::ios::binary); std::stringstream ss; ss << f.rdbuf(); std::string s = ss.str(); unsigned long h = 1469598103934665603UL; for(unsigned char ch : s) { h ^= ch; h *= 1099511628211UL; } return std::to_string(s.size()) + ":" + std::to_string(h); }
static void wlCInt(Ctx& c, int nexec, int len)
{
   for(int e = 0; e < nexec; e++)
   {
      T().line("{\"a\":\"Reset\"}");
      c.objs.clear(); c.nextId = 0; g_wellScaled = true;
      Gen gen{c.rng, c.rng.coin(1, 3) ? 2 : 0};
      // the mirror first, then the C object
      int om = createObj(c);
      pending() = "SoPlex_create"; void* h = SoPlex_create();
      int oc = c.nextId++; c.objs[oc].reset((SoPlex*)h); c.noInternal[oc] = false; c.modsSinceBasis[oc] = 0;
      SoPlex_setIntParam(h, SoPlex::VERBOSITY, 0);
      { J ev; ev.s("a", "create").i("o", oc); emit(c, oc, ev); }
      SoPlex& m = *c.objs[om];
      bool rational = c.rng.coin(1, 3);
      // a deterministic, robust configuration on both sides (objective sense through the C interface)
      { int sense = c.rng.coin() ? -1 : 1; setInt(c, om, "OBJSENSE", SoPlex::OBJSENSE, sense); pending() = "SoPlex_setIntParam"; SoPlex_setIntParam(h, SoPlex::OBJSENSE, sense);
        J a; a.i("code", (int)SoPlex::OBJSENSE).i("value", sense); ccall(c, oc, om, "setIntParam", a.str(), "{}", "[]", "[]", true); }
      { bool v = c.rng.coin(); setBool(c, om, "ENSURERAY", SoPlex::ENSURERAY, v); pending() = "SoPlex_setBoolParam"; SoPlex_setBoolParam(h, SoPlex::ENSURERAY, v ? 1 : 0);
        J a; a.i("code", (int)SoPlex::ENSURERAY).i("value", v ? 1 : 0); ccall(c, oc, om, "setBoolParam", a.str(), "{}", "[]", "[]", true); }
      if(rational)
      {
         setInt(c, om, "READMODE", SoPlex::READMODE, SoPlex::READMODE_RATIONAL); setInt(c, om, "SOLVEMODE", SoPlex::SOLVEMODE, SoPlex::SOLVEMODE_RATIONAL);
         setInt(c, om, "CHECKMODE", SoPlex::CHECKMODE, SoPlex::CHECKMODE_RATIONAL); setInt(c, om, "SYNCMODE", SoPlex::SYNCMODE, SoPlex::SYNCMODE_AUTO);
         setReal(c, om, "FEASTOL", SoPlex::FEASTOL, 0.0); setReal(c, om, "OPTTOL", SoPlex::OPTTOL, 0.0);
         pending() = "SoPlex_setRational"; SoPlex_setRational(h); ccall(c, oc, om, "setRational", "{}", "{}", "[]", "[]", true);
         setReal(c, om, "TIMELIMIT", SoPlex::TIMELIMIT, 20.0); SoPlex_setRealParam(h, SoPlex::TIMELIMIT, 20.0);
         { J a; a.i("code", (int)SoPlex::TIMELIMIT).s("value", "20"); ccall(c, oc, om, "setRealParam", a.str(), "{}", "[]", "[]", true); }
      }
      auto ratPair = [&](long& n, long& d) { n = c.rng.R(-6, 6); d = c.rng.coin() ? 1 : c.rng.R(2, 7); };
      for(int step = 0; step < len; step++)
      {
         int nr = m.numRows(), nc = m.numCols(); int k = c.rng.R(0, 99);
         if(k < 12 && nc < 5)
         {
            // addColReal: dense array, possibly longer than the number of rows (trailing zeros) or creating rows implicitly
            int extra = c.rng.coin(1, 3) ? c.rng.R(1, 2) : 0; int size = nr + extra; bool implicit = nr < 5 && extra > 0 && c.rng.coin(1, 3);
            GD ent(size, 0.0, DSENT); DSVector v; std::vector<std::pair<int, std::string>> ej; int cnt = 0;
            for(int i = 0; i < size; i++) if((i < nr || implicit) && c.rng.coin()) { double x = gen.coef(); ent[i] = x; v.add(i, x); ej.push_back({i, qd(x)}); cnt++; }
            double lo = gen.lower(), up = gen.upperFrom(lo), obj = gen.cost(); int nnz = c.rng.coin(1, 4) ? 0 : cnt;
            if(rational) { lo = lo <= -infinity ? -3.0 : lo; up = up >= infinity ? lo + 4 : up; }
            m.addColReal(LPCol(obj, v, up, lo)); std::string g = colJson(obj, lo, jsp(ej), up); modEvent(c, om, "addCol", g);
            pending() = "SoPlex_addColReal"; SoPlex_addColReal(h, ent.p(), size, nnz, obj, lo, up);
            J a; a.raw("entries", jgd(ent, size)).i("size", size).i("nnz", nnz).q("obj", obj).q("lb", lo).q("ub", up); ccall(c, oc, om, "addColReal", a.str(), g, "[]", "[]", ent.ok()); c.modsSinceBasis[oc]++;
         }
         else if(k < 24 && nr < 5)
         {
            int extra = c.rng.coin(1, 3) ? c.rng.R(1, 2) : 0; int size = nc + extra; bool implicit = nc < 5 && extra > 0 && c.rng.coin(1, 3);
            GD ent(size, 0.0, DSENT); DSVector v; std::vector<std::pair<int, std::string>> ej; int cnt = 0;
            for(int i = 0; i < size; i++) if((i < nc || implicit) && c.rng.coin()) { double x = gen.coef(); ent[i] = x; v.add(i, x); ej.push_back({i, qd(x)}); cnt++; }
            double lhs, rhs; sides(c, gen, lhs, rhs); int nnz = c.rng.coin(1, 4) ? 0 : cnt;
            if(rational) { lhs = lhs <= -infinity ? -3.0 : lhs; rhs = rhs >= infinity ? lhs + 4 : rhs; }
            m.addRowReal(LPRow(lhs, v, rhs)); std::string g = rowJson(lhs, jsp(ej), rhs); modEvent(c, om, "addRow", g);
            pending() = "SoPlex_addRowReal"; SoPlex_addRowReal(h, ent.p(), size, nnz, lhs, rhs);
            J a; a.raw("entries", jgd(ent, size)).i("size", size).i("nnz", nnz).q("lb", lhs).q("ub", rhs); ccall(c, oc, om, "addRowReal", a.str(), g, "[]", "[]", ent.ok()); c.modsSinceBasis[oc]++;
         }
         else if(k < 30 && rational && nc < 5)
         {
            int size = nr + (c.rng.coin(1, 3) ? 1 : 0); GL nums(size, 0, LSENT), dens(size, 1, LSENT); DSVectorRational v; std::vector<std::pair<int, std::string>> ej; int cnt = 0;
            for(int i = 0; i < nr; i++) if(c.rng.coin()) { long n, d; ratPair(n, d); nums[i] = n; dens[i] = d; if(n != 0) { Rational q(n, d); v.add(i, q); ej.push_back({i, qrat(q)}); cnt++; } }
            long on, od, ln, ld, un, ud; ratPair(on, od); ratPair(ln, ld); ratPair(un, ud); Rational lo(ln, ld), up(un, ud); if(up < lo) { std::swap(ln, un); std::swap(ld, ud); std::swap(lo, up); }
            Rational obj(on, od);
            m.addColRational(LPColRational(obj, v, up, lo)); J g; g.s("obj", qrat(obj)).s("lo", qrat(lo)).raw("vec", jsp(ej)).s("up", qrat(up)); modEventQ(c, om, "addCol", "rat", g.str());
            pending() = "SoPlex_addColRational"; SoPlex_addColRational(h, nums.p(), dens.p(), size, cnt, on, od, ln, ld, un, ud);
            J a; a.raw("nums", jlongs(nums, size)).raw("dens", jlongs(dens, size)).i("size", size).i("nnz", cnt).s("objn", std::to_string(on)).s("objd", std::to_string(od)).s("lbn", std::to_string(ln)).s("lbd", std::to_string(ld)).s("ubn", std::to_string(un)).s("ubd", std::to_string(ud));
            ccall(c, oc, om, "addColRational", a.str(), g.str(), "[]", "[]", nums.ok() && dens.ok()); c.modsSinceBasis[oc]++;
         }
         else if(k < 36 && rational && nr < 5)
         {
            int size = nc + (c.rng.coin(1, 3) ? 1 : 0); GL nums(size, 0, LSENT), dens(size, 1, LSENT); DSVectorRational v; std::vector<std::pair<int, std::string>> ej; int cnt = 0;
            for(int i = 0; i < nc; i++) if(c.rng.coin()) { long n, d; ratPair(n, d); nums[i] = n; dens[i] = d; if(n != 0) { Rational q(n, d); v.add(i, q); ej.push_back({i, qrat(q)}); cnt++; } }
            long ln, ld, un, ud; ratPair(ln, ld); ratPair(un, ud); Rational lo(ln, ld), up(un, ud); if(up < lo) { std::swap(ln, un); std::swap(ld, ud); std::swap(lo, up); }
            m.addRowRational(LPRowRational(lo, v, up)); J g; g.s("lhs", qrat(lo)).raw("vec", jsp(ej)).s("rhs", qrat(up)); modEventQ(c, om, "addRow", "rat", g.str());
            pending() = "SoPlex_addRowRational"; SoPlex_addRowRational(h, nums.p(), dens.p(), size, cnt, ln, ld, un, ud);
            J a; a.raw("nums", jlongs(nums, size)).raw("dens", jlongs(dens, size)).i("size", size).i("nnz", cnt).s("lbn", std::to_string(ln)).s("lbd", std::to_string(ld)).s("ubn", std::to_string(un)).s("ubd", std::to_string(ud));
            ccall(c, oc, om, "addRowRational", a.str(), g.str(), "[]", "[]", nums.ok() && dens.ok()); c.modsSinceBasis[oc]++;
         }
         else if(k < 39 && nc > 1) { int j = c.rng.R(0, nc - 1); m.removeColReal(j); J g; g.i("i", j); modEvent(c, om, "removeCol", g.str()); pending() = "SoPlex_removeColReal"; SoPlex_removeColReal(h, j); J a; a.i("i", j); ccall(c, oc, om, "removeColReal", a.str(), g.str(), "[]", "[]", true); c.modsSinceBasis[oc]++; }
         else if(k < 42 && nr > 1) { int i = c.rng.R(0, nr - 1); m.removeRowReal(i); J g; g.i("i", i); modEvent(c, om, "removeRow", g.str()); pending() = "SoPlex_removeRowReal"; SoPlex_removeRowReal(h, i); J a; a.i("i", i); ccall(c, oc, om, "removeRowReal", a.str(), g.str(), "[]", "[]", true); c.modsSinceBasis[oc]++; }
         else if(k < 58)
         {
            // vector and single-element changes through the floating-point functions
            int w = c.rng.R(0, 12);
            auto rowSide = [&](bool lower) { double v = lower ? gen.lower() : gen.upperFrom(-infinity); if(rational && (v <= -infinity || v >= infinity)) v = lower ? -5.0 : 7.0; return v; };
            if(w == 0 && nc > 0) { GD a1(nc, 0.0, DSENT); VectorReal v(nc); for(int j = 0; j < nc; j++) { a1[j] = gen.cost(); v[j] = a1[j]; } m.changeObjReal(v); std::string g = "{\"v\":" + dvec(v) + "}"; modEvent(c, om, "changeObjV", g);
               pending() = "SoPlex_changeObjReal"; SoPlex_changeObjReal(h, a1.p(), nc); J a; a.raw("v", jgd(a1, nc)).i("dim", nc); ccall(c, oc, om, "changeObjReal", a.str(), g, "[]", "[]", a1.ok()); }
            else if(w == 1 && nr > 0) { GD a1(nr, 0.0, DSENT); VectorReal v(nr); for(int i = 0; i < nr; i++) { double r = m.rhsReal(i); double l = rowSide(true); if(l > r) l = r; a1[i] = l; v[i] = l; } m.changeLhsReal(v); std::string g = "{\"v\":" + dvec(v) + "}"; modEvent(c, om, "changeLhsV", g);
               pending() = "SoPlex_changeLhsReal"; SoPlex_changeLhsReal(h, a1.p(), nr); J a; a.raw("v", jgd(a1, nr)).i("dim", nr); ccall(c, oc, om, "changeLhsReal", a.str(), g, "[]", "[]", a1.ok()); }
            else if(w == 2 && nr > 0) { GD a1(nr, 0.0, DSENT); VectorReal v(nr); for(int i = 0; i < nr; i++) { double l = m.lhsReal(i); double r = rowSide(false); if(r < l) r = l; a1[i] = r; v[i] = r; } m.changeRhsReal(v); std::string g = "{\"v\":" + dvec(v) + "}"; modEvent(c, om, "changeRhsV", g);
               pending() = "SoPlex_changeRhsReal"; SoPlex_changeRhsReal(h, a1.p(), nr); J a; a.raw("v", jgd(a1, nr)).i("dim", nr); ccall(c, oc, om, "changeRhsReal", a.str(), g, "[]", "[]", a1.ok()); }
            else if(w == 3 && nr > 0) { GD a1(nr, 0.0, DSENT), a2(nr, 0.0, DSENT); VectorReal l(nr), r(nr); for(int i = 0; i < nr; i++) { double x, y; sides(c, gen, x, y); if(rational) { x = x <= -infinity ? -3 : x; y = y >= infinity ? x + 2 : y; } a1[i] = l[i] = x; a2[i] = r[i] = y; }
               m.changeRangeReal(l, r); std::string g = "{\"lhs\":" + dvec(l) + ",\"rhs\":" + dvec(r) + "}"; modEvent(c, om, "changeRangeV", g);
               pending() = "SoPlex_changeRangeReal"; SoPlex_changeRangeReal(h, a1.p(), a2.p(), nr); J a; a.raw("lhs", jgd(a1, nr)).raw("rhs", jgd(a2, nr)).i("dim", nr); ccall(c, oc, om, "changeRangeReal", a.str(), g, "[]", "[]", a1.ok() && a2.ok()); }
            else if(w == 4 && nc > 0) { GD a1(nc, 0.0, DSENT), a2(nc, 0.0, DSENT); VectorReal l(nc), u(nc); for(int j = 0; j < nc; j++) { double x = gen.lower(), y = gen.upperFrom(x); if(rational) { x = x <= -infinity ? -3 : x; y = y >= infinity ? x + 2 : y; } a1[j] = l[j] = x; a2[j] = u[j] = y; }
               m.changeBoundsReal(l, u); std::string g = "{\"lo\":" + dvec(l) + ",\"up\":" + dvec(u) + "}"; modEvent(c, om, "changeBoundsV", g);
               pending() = "SoPlex_changeBoundsReal"; SoPlex_changeBoundsReal(h, a1.p(), a2.p(), nc); J a; a.raw("lo", jgd(a1, nc)).raw("up", jgd(a2, nc)).i("dim", nc); ccall(c, oc, om, "changeBoundsReal", a.str(), g, "[]", "[]", a1.ok() && a2.ok()); }
            else if(w == 5 && nc > 0) { GD a1(nc, 0.0, DSENT); VectorReal v(nc); for(int j = 0; j < nc; j++) { double u = m.upperReal(j); double x = gen.lower(); if(rational && x <= -infinity) x = -4; if(x > u) x = u; a1[j] = v[j] = x; } m.changeLowerReal(v); std::string g = "{\"v\":" + dvec(v) + "}"; modEvent(c, om, "changeLowerV", g);
               pending() = "SoPlex_changeLowerReal"; SoPlex_changeLowerReal(h, a1.p(), nc); J a; a.raw("v", jgd(a1, nc)).i("dim", nc); ccall(c, oc, om, "changeLowerReal", a.str(), g, "[]", "[]", a1.ok()); }
            else if(w == 6 && nc > 0) { GD a1(nc, 0.0, DSENT); VectorReal v(nc); for(int j = 0; j < nc; j++) { double l = m.lowerReal(j); double x = gen.upperFrom(l); if(rational && x >= infinity) x = l + 3; a1[j] = v[j] = x; } m.changeUpperReal(v); std::string g = "{\"v\":" + dvec(v) + "}"; modEvent(c, om, "changeUpperV", g);
               pending() = "SoPlex_changeUpperReal"; SoPlex_changeUpperReal(h, a1.p(), nc); J a; a.raw("v", jgd(a1, nc)).i("dim", nc); ccall(c, oc, om, "changeUpperReal", a.str(), g, "[]", "[]", a1.ok()); }
            else if(w == 7 && nr > 0) { int i = c.rng.R(0, nr - 1); double r = m.rhsReal(i), v = rowSide(true); if(v > r) v = r; m.changeLhsReal(i, v); J g; g.i("i", i).q("v", v); modEvent(c, om, "changeLhs", g.str()); pending() = "SoPlex_changeRowLhsReal"; SoPlex_changeRowLhsReal(h, i, v); ccall(c, oc, om, "changeRowLhsReal", g.str(), g.str(), "[]", "[]", true); }
            else if(w == 8 && nr > 0) { int i = c.rng.R(0, nr - 1); double l = m.lhsReal(i), v = rowSide(false); if(v < l) v = l; m.changeRhsReal(i, v); J g; g.i("i", i).q("v", v); modEvent(c, om, "changeRhs", g.str()); pending() = "SoPlex_changeRowRhsReal"; SoPlex_changeRowRhsReal(h, i, v); ccall(c, oc, om, "changeRowRhsReal", g.str(), g.str(), "[]", "[]", true); }
            else if(w == 9 && nr > 0) { int i = c.rng.R(0, nr - 1); double x, y; sides(c, gen, x, y); if(rational) { x = x <= -infinity ? -3 : x; y = y >= infinity ? x + 2 : y; } m.changeRangeReal(i, x, y); J g; g.i("i", i).q("lhs", x).q("rhs", y); modEvent(c, om, "changeRange", g.str()); pending() = "SoPlex_changeRowRangeReal"; SoPlex_changeRowRangeReal(h, i, x, y); ccall(c, oc, om, "changeRowRangeReal", g.str(), g.str(), "[]", "[]", true); }
            else if(w == 10 && nc > 0) { int j = c.rng.R(0, nc - 1); double x = gen.lower(), y = gen.upperFrom(x); if(rational) { x = x <= -infinity ? -3 : x; y = y >= infinity ? x + 2 : y; } m.changeBoundsReal(j, x, y); J g; g.i("i", j).q("lo", x).q("up", y); modEvent(c, om, "changeBounds", g.str()); pending() = "SoPlex_changeVarBoundsReal"; SoPlex_changeVarBoundsReal(h, j, x, y); ccall(c, oc, om, "changeVarBoundsReal", g.str(), g.str(), "[]", "[]", true); }
            else if(w == 11 && nc > 0) { int j = c.rng.R(0, nc - 1); double u = m.upperReal(j), x = gen.lower(); if(rational && x <= -infinity) x = -4; if(x > u) x = u; m.changeLowerReal(j, x); J g; g.i("i", j).q("v", x); modEvent(c, om, "changeLower", g.str()); pending() = "SoPlex_changeVarLowerReal"; SoPlex_changeVarLowerReal(h, j, x); ccall(c, oc, om, "changeVarLowerReal", g.str(), g.str(), "[]", "[]", true); }
            else if(w == 12 && nc > 0) { int j = c.rng.R(0, nc - 1); double l = m.lowerReal(j), x = gen.upperFrom(l); if(rational && x >= infinity) x = l + 3; m.changeUpperReal(j, x); J g; g.i("i", j).q("v", x); modEvent(c, om, "changeUpper", g.str()); pending() = "SoPlex_changeVarUpperReal"; SoPlex_changeVarUpperReal(h, j, x); ccall(c, oc, om, "changeVarUpperReal", g.str(), g.str(), "[]", "[]", true); }
            else continue;
            c.modsSinceBasis[oc]++;
         }
         else if(k < 66 && rational)
         {
            int w = c.rng.R(0, 3);
            if(w == 0 && nc > 0) { GL n1(nc, 0, LSENT), d1(nc, 1, LSENT); VectorRational v(nc); for(int j = 0; j < nc; j++) { long n, d; ratPair(n, d); n1[j] = n; d1[j] = d; v[j] = Rational(n, d); } m.changeObjRational(v); std::string g = "{\"v\":" + qvec(v) + "}"; modEventQ(c, om, "changeObjV", "rat", g);
               pending() = "SoPlex_changeObjRational"; SoPlex_changeObjRational(h, n1.p(), d1.p(), nc); J a; a.raw("nums", jlongs(n1, nc)).raw("dens", jlongs(d1, nc)).i("dim", nc); ccall(c, oc, om, "changeObjRational", a.str(), g, "[]", "[]", n1.ok() && d1.ok()); }
            else if(w == 1 && nr > 0) { GL n1(nr, 0, LSENT), d1(nr, 1, LSENT); VectorRational v(nr); for(int i = 0; i < nr; i++) { long n, d; ratPair(n, d); Rational q(n, d); if(q > m.rhsRational(i)) { q = m.rhsRational(i); n = (long)numerator(q); d = (long)denominator(q); } n1[i] = n; d1[i] = d; v[i] = q; } m.changeLhsRational(v); std::string g = "{\"v\":" + qvec(v) + "}"; modEventQ(c, om, "changeLhsV", "rat", g);
               pending() = "SoPlex_changeLhsRational"; SoPlex_changeLhsRational(h, n1.p(), d1.p(), nr); J a; a.raw("nums", jlongs(n1, nr)).raw("dens", jlongs(d1, nr)).i("dim", nr); ccall(c, oc, om, "changeLhsRational", a.str(), g, "[]", "[]", n1.ok() && d1.ok()); }
            else if(w == 2 && nr > 0) { GL n1(nr, 0, LSENT), d1(nr, 1, LSENT); VectorRational v(nr); for(int i = 0; i < nr; i++) { long n, d; ratPair(n, d); Rational q(n, d); if(q < m.lhsRational(i)) { q = m.lhsRational(i); n = (long)numerator(q); d = (long)denominator(q); } n1[i] = n; d1[i] = d; v[i] = q; } m.changeRhsRational(v); std::string g = "{\"v\":" + qvec(v) + "}"; modEventQ(c, om, "changeRhsV", "rat", g);
               pending() = "SoPlex_changeRhsRational"; SoPlex_changeRhsRational(h, n1.p(), d1.p(), nr); J a; a.raw("nums", jlongs(n1, nr)).raw("dens", jlongs(d1, nr)).i("dim", nr); ccall(c, oc, om, "changeRhsRational", a.str(), g, "[]", "[]", n1.ok() && d1.ok()); }
            else if(w == 3 && nc > 0) { int j = c.rng.R(0, nc - 1); long ln, ld, un, ud; ratPair(ln, ld); ratPair(un, ud); Rational lo(ln, ld), up(un, ud); if(up < lo) { std::swap(ln, un); std::swap(ld, ud); std::swap(lo, up); }
               m.changeBoundsRational(j, lo, up); J g; g.i("i", j).s("lo", qrat(lo)).s("up", qrat(up)); modEventQ(c, om, "changeBounds", "rat", g.str());
               pending() = "SoPlex_changeVarBoundsRational"; SoPlex_changeVarBoundsRational(h, j, ln, ld, un, ud); J a; a.i("i", j).s("lbn", std::to_string(ln)).s("lbd", std::to_string(ld)).s("ubn", std::to_string(un)).s("ubd", std::to_string(ud)); ccall(c, oc, om, "changeVarBoundsRational", a.str(), g.str(), "[]", "[]", true); }
            else continue;
            c.modsSinceBasis[oc]++;
         }
         else if(k < 84)
         {
            // getters: the C results next to what the C++ getters of the mirror return
            int w = c.rng.R(0, 8);
            if(w == 0) { int a1 = SoPlex_numRows(h), a2 = SoPlex_numCols(h); ccall(c, oc, om, "dims", "{}", "{}", "[" + std::to_string(a1) + "," + std::to_string(a2) + "]", "[" + std::to_string(m.numRows()) + "," + std::to_string(m.numCols()) + "]", true); }
            else if(w == 1) { static const int codes[] = {SoPlex::OBJSENSE, SoPlex::SYNCMODE, SoPlex::SOLVEMODE, SoPlex::READMODE, SoPlex::CHECKMODE, SoPlex::ALGORITHM, SoPlex::SCALER, SoPlex::ITERLIMIT};
               ccall(c, oc, om, "getIntParam", "{}", "{}", jarr(8, [&](int i) { return std::to_string(SoPlex_getIntParam(h, codes[i])); }), jarr(8, [&](int i) { return std::to_string(m.intParam((SoPlex::IntParam)codes[i])); }), true); }
            else if(w == 2 && nc > 0) { int dim = nc + (c.rng.coin(1, 3) ? 2 : 0); GD a1(dim, 777.0, DSENT); pending() = "SoPlex_getLowerReal"; SoPlex_getLowerReal(h, a1.p(), nc); VectorReal v(nc); m.getLowerReal(v); J a; a.i("dim", nc).i("alloc", dim); ccall(c, oc, om, "getLowerReal", a.str(), "{}", jgd(a1, dim), jarr(dim, [&](int i) { return jq(qd(i < nc ? v[i] : 777.0)); }), a1.ok()); }
            else if(w == 3 && nc > 0) { int dim = nc + (c.rng.coin(1, 3) ? 2 : 0); GD a1(dim, 777.0, DSENT); pending() = "SoPlex_getUpperReal"; SoPlex_getUpperReal(h, a1.p(), nc); VectorReal v(nc); m.getUpperReal(v); J a; a.i("dim", nc).i("alloc", dim); ccall(c, oc, om, "getUpperReal", a.str(), "{}", jgd(a1, dim), jarr(dim, [&](int i) { return jq(qd(i < nc ? v[i] : 777.0)); }), a1.ok()); }
            else if(w == 4 && nc > 0) { int dim = nc + (c.rng.coin(1, 3) ? 2 : 0); GD a1(dim, 777.0, DSENT); pending() = "SoPlex_getObjReal"; SoPlex_getObjReal(h, a1.p(), nc); VectorReal v(nc); m.getObjReal(v); J a; a.i("dim", nc).i("alloc", dim); ccall(c, oc, om, "getObjReal", a.str(), "{}", jgd(a1, dim), jarr(dim, [&](int i) { return jq(qd(i < nc ? v[i] : 777.0)); }), a1.ok()); }
            else if(w == 5 && nr > 0) { int i = c.rng.R(0, nr - 1); GL idx(nc + 2, -7, LSENT); GD co(nc + 2, 777.0, DSENT); int nn = -5; pending() = "SoPlex_getRowVectorReal"; SoPlex_getRowVectorReal(h, i, &nn, idx.p(), co.p());
               DSVector row; m.getRowVectorReal(i, row); std::vector<std::pair<int, std::string>> e1, e2; for(int t = 0; t < nn && t < nc + 2; t++) e1.push_back({(int)idx[t], qd(co[t])}); for(int t = 0; t < row.size(); t++) e2.push_back({row.index(t), qd(row.value(t))});
               J a; a.i("i", i); ccall(c, oc, om, "getRowVectorReal", a.str(), "{}", "{\"nnz\":" + std::to_string(nn) + ",\"vec\":" + jsp(e1) + "}", "{\"nnz\":" + std::to_string(row.size()) + ",\"vec\":" + jsp(e2) + "}", idx.ok() && co.ok()); }
            else if(w == 6 && nr > 0) { int i = c.rng.R(0, nr - 1); double lb = 777, ub = 777; pending() = "SoPlex_getRowBoundsReal"; SoPlex_getRowBoundsReal(h, i, &lb, &ub); J a; a.i("i", i); ccall(c, oc, om, "getRowBoundsReal", a.str(), "{}", "[" + jq(qd(lb)) + "," + jq(qd(ub)) + "]", "[" + jq(qd(m.lhsReal(i))) + "," + jq(qd(m.rhsReal(i))) + "]", true); }
            else if(w == 7 && nr > 0 && rational) { int i = c.rng.R(0, nr - 1); GL idx(nc + 2, -7, LSENT), cn(nc + 2, -7, LSENT), cd(nc + 2, -7, LSENT); int nn = -5; pending() = "SoPlex_getRowVectorRational"; SoPlex_getRowVectorRational(h, i, &nn, idx.p(), cn.p(), cd.p());
               LPRowRational lr; m.getRowRational(i, lr); std::vector<std::pair<int, std::string>> e1, e2; for(int t = 0; t < nn && t < nc + 2; t++) e1.push_back({(int)idx[t], qrat(Rational(cn[t], cd[t] == 0 ? 1 : cd[t]))}); for(int t = 0; t < lr.rowVector().size(); t++) e2.push_back({lr.rowVector().index(t), qrat(lr.rowVector().value(t))});
               J a; a.i("i", i); ccall(c, oc, om, "getRowVectorRational", a.str(), "{}", "{\"nnz\":" + std::to_string(nn) + ",\"vec\":" + jsp(e1) + "}", "{\"nnz\":" + std::to_string(lr.rowVector().size()) + ",\"vec\":" + jsp(e2) + "}", idx.ok() && cn.ok() && cd.ok()); }
            else if(w == 8 && nr > 0 && rational) { int i = c.rng.R(0, nr - 1); if(m.lhsRational(i) <= Rational(-infinity) || m.rhsRational(i) >= Rational(infinity)) continue;   /* an infinite side has no long/long representation */ long a1 = -7, a2 = -7, a3 = -7, a4 = -7; pending() = "SoPlex_getRowBoundsRational"; SoPlex_getRowBoundsRational(h, i, &a1, &a2, &a3, &a4); J a; a.i("i", i);
               ccall(c, oc, om, "getRowBoundsRational", a.str(), "{}", "[" + jq(qrat(Rational(a1, a2 == 0 ? 1 : a2))) + "," + jq(qrat(Rational(a3, a4 == 0 ? 1 : a4))) + "]", "[" + jq(qrat(m.lhsRational(i))) + "," + jq(qrat(m.rhsRational(i))) + "]", true); }
            else continue;
         }
         else if(k < 94)
         {
            if(nr == 0 || nc == 0) continue;
            // solve both; every result getter of the C interface next to the C++ getter of the mirror
            SolveOpts so; so.complete = false; int mst = rational ? optimizeQ(c, om, so) : optimize(c, om, so);
            pending() = "SoPlex_optimize"; int cst = SoPlex_optimize(h); c.modsSinceBasis[oc] = 0;
            GD x(nc, 777.0, DSENT), y(nr, 777.0, DSENT), d(nc, 777.0, DSENT); VectorReal mx(nc), my(nr), md(nc); mx.clear(); my.clear(); md.clear();
            for(int j = 0; j < nc; j++) x[j] = d[j] = 0.0; for(int i = 0; i < nr; i++) y[i] = 0.0;
            pending() = "SoPlex result getters"; SoPlex_getPrimalReal(h, x.p(), nc); SoPlex_getDualReal(h, y.p(), nr); SoPlex_getRedCostReal(h, d.p(), nc);
            m.getPrimalReal(mx.get_ptr(), nc); m.getDualReal(my.get_ptr(), nr); m.getRedCostReal(md.get_ptr(), nc);
            J cr, mr; cr.i("status", cst).i("getStatus", SoPlex_getStatus(h)).q("objval", SoPlex_objValueReal(h)).i("iters", SoPlex_getNumIterations(h)).raw("x", jgd(x, nc)).raw("y", jgd(y, nr)).raw("d", jgd(d, nc))
              .raw("brow", jarr(nr, [&](int i) { return std::to_string(SoPlex_basisRowStatus(h, i)); })).raw("bcol", jarr(nc, [&](int j) { return std::to_string(SoPlex_basisColStatus(h, j)); }));
            mr.i("status", mst).i("getStatus", (int)m.status()).q("objval", m.objValueReal()).i("iters", m.numIterations()).raw("x", dvec(mx)).raw("y", dvec(my)).raw("d", dvec(md))
              .raw("brow", jarr(nr, [&](int i) { return std::to_string((int)m.basisRowStatus(i)); })).raw("bcol", jarr(nc, [&](int j) { return std::to_string((int)m.basisColStatus(j)); }));
            if(rational)
            {
               pending() = "SoPlex_objValueRationalString"; char* os = SoPlex_objValueRationalString(h); cr.s("objstr", os ? std::string(os, strnlen(os, 4000)) : "null"); delete[] os; mr.s("objstr", m.objValueRational().str());
               if(cst == (int)SPxSolver::OPTIMAL && mst == cst) { pending() = "SoPlex_getPrimalRationalString"; char* ps = SoPlex_getPrimalRationalString(h, nc); cr.s("primalstr", ps ? std::string(ps, strnlen(ps, 4000)) : "null"); delete[] ps;
                  VectorRational px(nc); m.getPrimalRational(px); std::string e2; for(int j = 0; j < nc; j++) { e2 += px[j].str(); e2 += " "; } mr.s("primalstr", e2); }
            }
            ccall(c, oc, om, "optimize", "{}", "{}", cr.str(), mr.str(), x.ok() && y.ok() && d.ok());
         }
         else if(k < 97)
         {
            // file functions on a fresh pair of objects: write from both, compare the bytes; read back into a fresh pair, compare the objects
            const char* ext = c.rng.coin() ? ".lp" : ".mps"; std::string f1 = g_tmpdir + "/c" + std::to_string(e) + "_" + std::to_string(step) + ext, f2 = g_tmpdir + "/m" + std::to_string(e) + "_" + std::to_string(step) + ext;
            pending() = "SoPlex_writeFileReal"; SoPlex_writeFileReal(h, (char*)f1.c_str()); bool mw = m.writeFile(f2.c_str());
            void* h2 = SoPlex_create(); SoPlex m2; SoPlex_setIntParam(h2, SoPlex::VERBOSITY, 0); m2.setIntParam(SoPlex::VERBOSITY, 0);
            pending() = "SoPlex_readInstanceFile"; int cr = SoPlex_readInstanceFile(h2, f1.c_str()); bool mr2 = m2.readFile(f1.c_str());
            std::string p1 = proj(*(SoPlex*)h2, false), p2 = proj(m2, false);
            J cres, mres; cres.s("written", fileBytesDigest(f1)).i("readRet", cr).raw("readSt", p1); mres.s("written", mw ? fileBytesDigest(f2) : "none").i("readRet", mr2 ? 1 : 0).raw("readSt", p2);
            // settings and basis files on the fresh pair
            std::string fs = g_tmpdir + "/s" + std::to_string(e) + "_" + std::to_string(step) + ".set", fb = g_tmpdir + "/b" + std::to_string(e) + "_" + std::to_string(step) + ".bas";
            m.saveSettingsFile(fs.c_str(), c.rng.coin());
            pending() = "SoPlex_readSettingsFile"; int cs = SoPlex_readSettingsFile(h2, fs.c_str()); bool ms = m2.loadSettingsFile(fs.c_str());
            SoPlex_setIntParam(h2, SoPlex::VERBOSITY, 0); m2.setIntParam(SoPlex::VERBOSITY, 0);
            cres.i("settingsRet", cs).s("settings", paramsDigest(*(SoPlex*)h2)); mres.i("settingsRet", ms ? 1 : 0).s("settings", paramsDigest(m2));
            if(m.hasBasis() && cr && mr2 && m.writeBasisFile(fb.c_str()))
            {
               pending() = "SoPlex_readBasisFile"; int cb = SoPlex_readBasisFile(h2, fb.c_str()); bool mb = m2.readBasisFile(fb.c_str());
               cres.i("basisRet", cb).raw("basisSt", proj(*(SoPlex*)h2, false)); mres.i("basisRet", mb ? 1 : 0).raw("basisSt", proj(m2, false));
            }
            SoPlex_free(h2); remove(f1.c_str()); remove(f2.c_str()); remove(fs.c_str()); remove(fb.c_str());
            J a; a.s("ext", ext); ccall(c, oc, om, "files", a.str(), "{}", cres.str(), mres.str(), true);
         }
         else
         {
            m.clearLPReal(); modEvent(c, om, "clearLP", "{}"); pending() = "SoPlex_clearLPReal"; SoPlex_clearLPReal(h); ccall(c, oc, om, "clearLPReal", "{}", "{}", "[]", "[]", true); c.modsSinceBasis[oc]++;
         }
      }
      // SoPlex_free is the unique_ptr deleter's delete
      pending() = "SoPlex_free"; SoPlex* raw = c.objs[oc].release(); SoPlex_free(raw); c.objs.erase(oc); { J ev; ev.s("a", "destroy").i("o", oc); emit(c, oc, ev); }
   }
}

// ---------------------------------------------------------------- C08: the internal simplifier stand-alone (spec/TV_Presolve.tla)
#include "soplex/spxmainsm.h"
static std::string lpJson(const SPxLPBase<double>& lp)
{
   int nr = lp.nRows(), nc = lp.nCols();
   J o; o.raw("rows", jarr(nr, [&](int i) { std::vector<std::pair<int, std::string>> e; const SVectorBase<double>& v = lp.rowVector(i); for(int k = 0; k < v.size(); k++) e.push_back({v.index(k), qd(v.value(k))}); return jsp(e); }));
   o.raw("lhs", jarr(nr, [&](int i) { return jq(qd(lp.lhs(i))); })).raw("rhs", jarr(nr, [&](int i) { return jq(qd(lp.rhs(i))); }));
   o.raw("lo", jarr(nc, [&](int j) { return jq(qd(lp.lower(j))); })).raw("up", jarr(nc, [&](int j) { return jq(qd(lp.upper(j))); }));
   o.raw("obj", jarr(nc, [&](int j) { return jq(qd(lp.obj(j))); })).i("sense", lp.spxSense() == SPxLPBase<double>::MAXIMIZE ? 1 : -1);
   return o.str();
}
// presolve-specific structures added to a witnessed OPT instance without invalidating its witness
static void augmentForPresolve(Rng& g, LPData& L)
{
   if(L.kind != "OPT") return;
   double smin = L.sense == 1 ? -1.0 : 1.0;                       // multiply by smin to get the minimisation convention
   int rounds = g.R(0, 3);
   for(int t = 0; t < rounds; t++)
   {
      int w = g.R(0, 4);
      if(w == 0 && L.n < 7)
      {
         // duplicate (scaled) column, new variable at 0
         int j = g.R(0, L.n - 1); double f = g.coin() ? 1 : (g.coin() ? 2 : -1);
         for(int i = 0; i < L.m; i++) L.A[i].push_back(f * L.A[i][j]);
         double dn = f * L.d[j]; L.c.push_back(f * L.c[j]); L.d.push_back(dn); L.x.push_back(0.0);
         if(smin * dn > 0) { L.lo.push_back(0.0); L.up.push_back(infinity); } else if(smin * dn < 0) { L.lo.push_back(-infinity); L.up.push_back(0.0); } else { L.lo.push_back(-(double)g.R(0, 2)); L.up.push_back((double)g.R(0, 2)); }
         L.n++;
      }
      else if(w == 1 && L.n < 7 && L.m < 7)
      {
         // doubleton equation a x_j + b z = r with a free column singleton z (aggregation / free column singleton reductions)
         int j = g.R(0, L.n - 1); double a = g.coin() ? 1 : -2, b = g.coin() ? 1 : 2; double z = g.R(-2, 2); double r = a * L.x[j] + b * z;
         double cz = g.R(-2, 2); double ynew = cz / b;             // d_z = c_z - b y = 0
         std::vector<double> row(L.n + 1, 0.0); row[j] = a; row[L.n] = b;
         for(int i = 0; i < L.m; i++) L.A[i].push_back(0.0);
         L.A.push_back(row); L.lhs.push_back(r); L.rhs.push_back(r); L.y.push_back(ynew); L.m++;
         L.c.push_back(cz); L.d.push_back(0.0); L.x.push_back(z); L.lo.push_back(-infinity); L.up.push_back(infinity); L.n++;
         L.c[j] += a * ynew;                                       // keeps d_j = c_j - sum a_ij y_i
      }
      else if(w == 2 && L.m < 7)
      {
         // redundant singleton row / forcing-free row on x_j
         int j = g.R(0, L.n - 1); double a = g.coin() ? 2 : -1; std::vector<double> row(L.n, 0.0); row[j] = a; double act = a * L.x[j];
         L.A.push_back(row); L.lhs.push_back(g.coin() ? -infinity : act - g.R(1, 3)); L.rhs.push_back(g.coin() ? infinity : act + g.R(1, 3)); L.y.push_back(0.0); L.m++;
      }
      else if(w == 4 && L.n < 7 && L.m < 7)
      {
         // doubleton equation a x_j + b z = r, coefficients of either sign, z bounded on one side (or both): aggregation transfers z's bounds to x_j
         int j = g.R(0, L.n - 1); double a = g.R(1, 3) * (g.coin() ? 1 : -1), b = g.R(1, 3) * (g.coin() ? 1 : -1); double z = g.R(-2, 2); double r = a * L.x[j] + b * z;
         double cz = g.R(-2, 2); double ynew = cz / b; if(ynew != std::ldexp(std::round(std::ldexp(ynew, 8)), -8)) { cz = b * g.R(-1, 1); ynew = cz / b; }   // keep the witness dyadic
         std::vector<double> row(L.n + 1, 0.0); row[j] = a; row[L.n] = b;
         for(int i = 0; i < L.m; i++) L.A[i].push_back(0.0);
         L.A.push_back(row); L.lhs.push_back(r); L.rhs.push_back(r); L.y.push_back(ynew); L.m++;
         int bt = g.R(0, 2); double zl = -infinity, zu = infinity; if(bt == 0 || bt == 2) zl = z - g.R(0, 2); if(bt == 1 || bt == 2) zu = z + g.R(0, 2);
         L.c.push_back(cz); L.d.push_back(0.0); L.x.push_back(z); L.lo.push_back(zl); L.up.push_back(zu); L.n++;
         L.c[j] += a * ynew;
         // sometimes free the kept variable on one side: only the transferred bound keeps the LP bounded then
         if(g.coin(1, 3) && L.d[j] == 0) { if(g.coin()) L.lo[j] = -infinity; else L.up[j] = infinity; }
      }
      else if(w == 3 && L.m >= 1 && L.m < 7)
      {
         // parallel row with consistent, non-binding sides
         int i0 = g.R(0, L.m - 1); double f = g.coin() ? 2 : -1; std::vector<double> row(L.n); for(int j = 0; j < L.n; j++) row[j] = f * L.A[i0][j]; double act = dotRow(L, i0, L.x) * f;
         L.A.push_back(row); L.lhs.push_back(act - g.R(0, 2)); L.rhs.push_back(act + g.R(0, 2)); L.y.push_back(0.0); L.m++;
      }
   }
}
typedef std::vector<std::vector<Rational>> QMat;
// solves M z = r exactly (square); returns false if singular or numerically singular (|det| < 1e-8 * product of the row
// maxima: such a basis only exists because of rounding inside the reduced LP and no floating-point solver would return it)
static bool qsolve(QMat M, std::vector<Rational> r, std::vector<Rational>& z)
{
   int n = (int)M.size();
   Rational scaleProd(1), det(1);
   for(int i = 0; i < n; i++) { Rational mx(0); for(int k = 0; k < n; k++) { Rational a = M[i][k] < 0 ? Rational(-M[i][k]) : M[i][k]; if(a > mx) mx = a; } if(mx == 0) return false; scaleProd *= mx; }
   { QMat D = M; for(int c = 0; c < n; c++) { int p = -1; for(int i = c; i < n; i++) if(D[i][c] != 0) { p = i; break; } if(p < 0) return false; if(p != c) { std::swap(D[p], D[c]); det = -det; } det *= D[c][c];
        for(int i = c + 1; i < n; i++) if(D[i][c] != 0) { Rational f = D[i][c] / D[c][c]; for(int k = c; k < n; k++) D[i][k] -= f * D[c][k]; } }
     Rational ad = det < 0 ? Rational(-det) : det; if(ad * Rational(100000000) < scaleProd) return false; }
   for(int c = 0; c < n; c++)
   {
      int p = -1; for(int i = c; i < n; i++) if(M[i][c] != 0) { p = i; break; }
      if(p < 0) return false;
      std::swap(M[p], M[c]); std::swap(r[p], r[c]);
      for(int i = 0; i < n; i++) if(i != c && M[i][c] != 0) { Rational f = M[i][c] / M[c][c]; for(int k = c; k < n; k++) M[i][k] -= f * M[c][k]; r[i] -= f * r[c]; }
   }
   z.assign(n, Rational(0)); for(int i = 0; i < n; i++) z[i] = r[i] / M[i][i];
   return true;
}
struct Vertex { std::vector<Rational> x, s, y, d; std::vector<int> brow, bcol; };
// every optimal basic solution of lp (exact arithmetic); variables 0..n-1 structural, n..n+m-1 row activities
static std::vector<Vertex> optimalVertices(const SPxLPBase<double>& lp, Rng& g, int maxOut)
{
   std::vector<Vertex> out; int m = lp.nRows(), n = lp.nCols(); int N = n + m;
   if(m == 0 || N > 12) return out;
   Rational posInf(infinity), negInf(-infinity); bool mini = lp.spxSense() == SPxLPBase<double>::MINIMIZE;
   std::vector<Rational> lo(N), up(N), c(n); QMat A(m, std::vector<Rational>(n, Rational(0)));
   for(int j = 0; j < n; j++) { lo[j] = Rational(lp.lower(j)); up[j] = Rational(lp.upper(j)); c[j] = Rational(lp.obj(j)); const SVectorBase<double>& v = lp.colVector(j); for(int k = 0; k < v.size(); k++) A[v.index(k)][j] = Rational(v.value(k)); }
   for(int i = 0; i < m; i++) { lo[n + i] = Rational(lp.lhs(i)); up[n + i] = Rational(lp.rhs(i)); }
   std::vector<int> comb(m); for(int i = 0; i < m; i++) comb[i] = i;
   std::vector<std::vector<int>> bases;
   while(true) { bases.push_back(comb); int i = m - 1; while(i >= 0 && comb[i] == N - m + i) i--; if(i < 0) break; comb[i]++; for(int k = i + 1; k < m; k++) comb[k] = comb[k - 1] + 1; if(bases.size() > 3000) break; }
   std::shuffle(bases.begin(), bases.end(), g.g);
   for(auto& B : bases)
   {
      if((int)out.size() >= maxOut) break;
      std::vector<bool> basic(N, false); for(int v : B) basic[v] = true;
      // nonbasic variables: every choice of a finite bound (free nonbasic: value 0)
      std::vector<int> nb; for(int v = 0; v < N; v++) if(!basic[v]) nb.push_back(v);
      int choices = 1; std::vector<int> nopt(nb.size());
      for(size_t k = 0; k < nb.size(); k++) { int v = nb[k]; bool fl = lo[v] > negInf, fu = up[v] < posInf; nopt[k] = (fl && fu && lo[v] != up[v]) ? 2 : 1; choices *= nopt[k]; if(choices > 64) break; }
      if(choices > 64) continue;
      for(int ch = 0; ch < choices && (int)out.size() < maxOut; ch++)
      {
         std::vector<Rational> val(N, Rational(0)); std::vector<int> stat(N, (int)SPxSolver::BASIC); int cc = ch;
         for(size_t k = 0; k < nb.size(); k++)
         {
            int v = nb[k]; bool fl = lo[v] > negInf, fu = up[v] < posInf; int pick = cc % nopt[k]; cc /= nopt[k];
            if(fl && fu && lo[v] == up[v]) { val[v] = lo[v]; stat[v] = SPxSolver::FIXED; }
            else if(fl && fu) { val[v] = pick ? up[v] : lo[v]; stat[v] = pick ? SPxSolver::ON_UPPER : SPxSolver::ON_LOWER; }
            else if(fl) { val[v] = lo[v]; stat[v] = SPxSolver::ON_LOWER; } else if(fu) { val[v] = up[v]; stat[v] = SPxSolver::ON_UPPER; } else { val[v] = 0; stat[v] = SPxSolver::ZERO; }
         }
         // equations  sum_j A_ij x_j - s_i = 0  in the m basic unknowns
         QMat M(m, std::vector<Rational>(m, Rational(0))); std::vector<Rational> rhs(m, Rational(0));
         for(int i = 0; i < m; i++)
         {
            for(int k = 0; k < m; k++) { int v = B[k]; M[i][k] = v < n ? A[i][v] : (v - n == i ? Rational(-1) : Rational(0)); }
            for(int v : nb) rhs[i] -= (v < n ? A[i][v] : (v - n == i ? Rational(-1) : Rational(0))) * val[v];
         }
         bool nbOK = true; for(int v : nb) if(val[v] < lo[v] || val[v] > up[v]) nbOK = false;       // (a reduced LP may have crossing bounds)
         if(!nbOK) continue;
         std::vector<Rational> z; if(!qsolve(M, rhs, z)) break;            // singular basis: no choice of bounds helps
         bool feas = true; for(int k = 0; k < m; k++) { val[B[k]] = z[k]; if(z[k] < lo[B[k]] || z[k] > up[B[k]]) feas = false; }
         if(!feas) continue;
         // duals: y_i = 0 for basic rows, d_j = 0 for basic columns:  sum_i A_ij y_i = c_j (j basic)
         std::vector<int> nbRows, bCols; for(int i = 0; i < m; i++) if(!basic[n + i]) nbRows.push_back(i); for(int j = 0; j < n; j++) if(basic[j]) bCols.push_back(j);
         std::vector<Rational> y(m, Rational(0));
         if(nbRows.size() != bCols.size()) continue;
         if(!nbRows.empty()) { int q = (int)nbRows.size(); QMat D(q, std::vector<Rational>(q)); std::vector<Rational> cr(q); for(int a = 0; a < q; a++) { for(int b = 0; b < q; b++) D[a][b] = A[nbRows[b]][bCols[a]]; cr[a] = c[bCols[a]]; }
            std::vector<Rational> yy; if(!qsolve(D, cr, yy)) continue; for(int b = 0; b < q; b++) y[nbRows[b]] = yy[b]; }
         std::vector<Rational> d(n); for(int j = 0; j < n; j++) { d[j] = c[j]; for(int i = 0; i < m; i++) d[j] -= A[i][j] * y[i]; }
         // dual feasibility (minimisation: at lower needs multiplier >= 0, at upper <= 0; rows likewise with y; maximisation mirrored)
         bool dfe = true; Rational sgn = mini ? Rational(1) : Rational(-1);
         for(int v = 0; v < N && dfe; v++)
         {
            if(basic[v]) continue; Rational mu = sgn * (v < n ? d[v] : y[v - n]);
            if(stat[v] == SPxSolver::ON_LOWER && mu < 0) dfe = false; if(stat[v] == SPxSolver::ON_UPPER && mu > 0) dfe = false; if(stat[v] == SPxSolver::ZERO && mu != 0) dfe = false;
         }
         if(!dfe) continue;
         Vertex V; V.x.assign(val.begin(), val.begin() + n); V.s.assign(val.begin() + n, val.end()); V.y = y; V.d = d;
         for(int i = 0; i < m; i++) V.brow.push_back(stat[n + i]); for(int j = 0; j < n; j++) V.bcol.push_back(stat[j]);
         out.push_back(V);
      }
   }
   return out;
}
static std::string solJsonQ(const Vertex& v) { return "{\"x\":" + qvecs(v.x) + ",\"s\":" + qvecs(v.s) + ",\"y\":" + qvecs(v.y) + ",\"d\":" + qvecs(v.d) + ",\"brow\":" + jints(v.brow) + ",\"bcol\":" + jints(v.bcol) + "}"; }
static void wlPresolve(Ctx& c, int nexec, int len)
{
   static const char* kinds[] = {"OPT", "OPT", "OPT", "OPT", "INF", "UNB"};
   for(int e = 0; e < nexec; e++)
   {
      T().line("{\"a\":\"Reset\"}");
      LPData L = genWitnessed(c.rng, 4, kinds[c.rng.R(0, 5)], c.rng.coin(1, 4) ? 6 : 0); augmentForPresolve(c.rng, L);
      SPxLPBase<double> lp; lp.changeSense(L.sense == 1 ? SPxLPBase<double>::MAXIMIZE : SPxLPBase<double>::MINIMIZE);
      for(int j = 0; j < L.n; j++) { DSVector ev; lp.addCol(LPCol(L.c[j], ev, L.up[j], L.lo[j])); }
      for(int i = 0; i < L.m; i++) { DSVector v; spRowOf(L, i, v); lp.addRow(LPRow(L.lhs[i], v, L.rhs[i])); }
      {
         J ev; ev.s("a", "plp").raw("lp", lpJson(lp)).s("kind", L.kind); std::vector<double> act(L.m); for(int i = 0; i < L.m; i++) act[i] = dotRow(L, i, L.x);
         ev.raw("sol", L.kind == "OPT" ? "{\"x\":" + jdbl(L.x) + ",\"s\":" + jdbl(act) + ",\"y\":" + jdbl(L.y) + ",\"d\":" + jdbl(L.d) + "}" : "{\"x\":[],\"s\":[],\"y\":[],\"d\":[]}");
         ev.raw("x", L.kind == "UNB" ? jdbl(L.x) : "[]").raw("ray", L.kind == "UNB" ? jdbl(L.ray) : "[]").raw("farkas", L.kind == "INF" ? jdbl(L.farkas) : "[]"); T().line(ev.str());
      }
      auto tol = std::make_shared<Tolerances>();
      for(int round = 0; round < len; round++)
      {
         bool keepbounds = c.rng.coin(); unsigned seed = (unsigned)c.rng.R(0, 1000);
         static thread_local SPxOut quiet; quiet.setVerbosity(SPxOut::ERROR);
         auto simplifyOnce = [&](SPxMainSM<double>& sm, SPxLPBase<double>& work) { sm.setTolerances(tol); sm.setOutstream(quiet); work = lp; work.setTolerances(tol); work.setOutstream(quiet); return (int)sm.simplify(work, 1e9, keepbounds, seed); };
         SPxMainSM<double> sm0; SPxLPBase<double> red; pending() = "SPxMainSM::simplify"; int res = simplifyOnce(sm0, red);
         { J ev; ev.s("a", "simplify").b("keepbounds", keepbounds).i("seed", (long)seed).i("result", res).raw("red", lpJson(red)).q("offset", (res == 0 || res == 4) ? sm0.getObjoffset() : 0.0); T().line(ev.str()); }
         auto pushThrough = [&](const Vertex* V)
         {
            SPxMainSM<double> sm; SPxLPBase<double> work; int r2 = simplifyOnce(sm, work); if(r2 != res) { J bad; bad.s("a", "Crash").s("what", "simplify is not deterministic for identical input").s("during", "simplify"); T().line(bad.str()); return; }
            int rn = V ? work.nRows() : lp.nRows(), cn = V ? work.nCols() : lp.nCols();
            VectorBase<double> x(cn), y(rn), sl(rn), d(cn); x.clear(); y.clear(); sl.clear(); d.clear();
            std::vector<SPxSolver::VarStatus> rs((size_t)rn + 1, SPxSolver::BASIC), cs((size_t)cn + 1, SPxSolver::ON_LOWER);
            if(V) { for(int j = 0; j < cn; j++) { x[j] = (double)V->x[(size_t)j]; d[j] = (double)V->d[(size_t)j]; cs[(size_t)j] = (SPxSolver::VarStatus)V->bcol[(size_t)j]; } for(int i = 0; i < rn; i++) { sl[i] = (double)V->s[(size_t)i]; y[i] = (double)V->y[(size_t)i]; rs[(size_t)i] = (SPxSolver::VarStatus)V->brow[(size_t)i]; } }
            else for(int j = 0; j < cn; j++) cs[(size_t)j] = lp.lower(j) > -infinity ? SPxSolver::ON_LOWER : (lp.upper(j) < infinity ? SPxSolver::ON_UPPER : SPxSolver::ZERO);
            bool threw = false; pending() = "SPxMainSM::unsimplify";
            try { sm.unsimplify(x, y, sl, d, rs.data(), cs.data(), true); } catch(const SPxException&) { threw = true; }
            J ev; ev.s("a", "unsimp").b("threw", threw);
            if(V) ev.raw("inq", solJsonQ(*V)).raw("in", "{\"x\":" + dvec(x) + ",\"s\":" + dvec(sl) + ",\"y\":" + dvec(y) + ",\"d\":" + dvec(d) + "}");
            else ev.raw("inq", "{\"x\":[],\"s\":[],\"y\":[],\"d\":[],\"brow\":[],\"bcol\":[]}").raw("in", "{\"x\":[],\"s\":[],\"y\":[],\"d\":[]}");
            if(!threw)
            {
               int onr = lp.nRows(), onc = lp.nCols(); std::vector<SPxSolver::VarStatus> orow((size_t)onr + 1), ocol((size_t)onc + 1); sm.getBasis(orow.data(), ocol.data(), onr, onc);
               ev.raw("out", "{\"x\":" + dvec(sm.unsimplifiedPrimal()) + ",\"s\":" + dvec(sm.unsimplifiedSlacks()) + ",\"y\":" + dvec(sm.unsimplifiedDual()) + ",\"d\":" + dvec(sm.unsimplifiedRedCost()) + ",\"brow\":" + statuses(orow.data(), onr) + ",\"bcol\":" + statuses(ocol.data(), onc) + "}");
            }
            else ev.raw("out", "{\"x\":[],\"s\":[],\"y\":[],\"d\":[],\"brow\":[],\"bcol\":[]}");
            T().line(ev.str());
         };
         if(res == (int)SPxSimplifier<double>::VANISHED) pushThrough(nullptr);
         else if(res == (int)SPxSimplifier<double>::OKAY)
         {
            if(red.nRows() == 0) continue;                              // (an LP without rows is not handed to the simplex either)
            std::vector<Vertex> vs = optimalVertices(red, c.rng, 6);
            for(const Vertex& V : vs) pushThrough(&V);
         }
      }
   }
}

// ---------------------------------------------------------------- C13: file readers on arbitrary input
// Seed files: files written by SoPlex itself from generated LPs and hand-written templates that use the rarer grammar
// features; each is read unchanged (the expected LP is known) and after byte-level / line-level mutations.  A read must
// return; afterwards the object must be self-consistent and usable: projection, solve, clear, load a witnessed LP, solve.
#include <signal.h>
static void onAlarm(int) { crashLine("reader did not return within 10 s (hang)"); _exit(0); }
struct SeedFile { std::string ext, text, expect; };                 // expect: JSON of the LP the unmutated text denotes ("" = unknown)
static std::vector<SeedFile> handWritten()
{
   std::vector<SeedFile> v;
   v.push_back({".mps", "NAME          TEMPL1\nROWS\n N  obj\n E  r1\n E  r2\n L  r3\n G  r4\n E  r5\nCOLUMNS\n    x         obj       1.0   r1        1.0\n    x         r2        1.0   r3        1.0\n    x         r4        1.0   r5        2.0\n    y         obj       2.0   r2        1.0\n    y         r5        1.0\nRHS\n    RHS       r1        4.0   r2        1.0\n    RHS       r3        3.0   r4        1.0\n    RHS       r5        10.0\nRANGES\n    RNG       r1        2.0   r2        -2.0\n    RNG       r3        1.5   r4        2.5\n    RNG       r5        5.0\nBOUNDS\n UP BND       x         4.0\n MI BND       y\n UP BND       y         8.0\nENDATA\n",
      "{\"rows\":[[[0,\"1\"]],[[0,\"1\"],[1,\"1\"]],[[0,\"1\"]],[[0,\"1\"]],[[0,\"2\"],[1,\"1\"]]],\"lhs\":[\"4\",\"-1\",\"3/2\",\"1\",\"10\"],\"rhs\":[\"6\",\"1\",\"3\",\"7/2\",\"15\"],\"lo\":[\"0\",\"-inf\"],\"up\":[\"4\",\"8\"],\"obj\":[\"1\",\"2\"],\"sense\":-1}"});
   v.push_back({".mps", "NAME          TEMPL2\nOBJSENSE\n    MAX\nROWS\n N  cost\n L  c1\n G  c2\nCOLUMNS\n    a         cost      3.0   c1        1.0\n    b         cost      -1.5  c1        2.0\n    b         c2        1.0\n    c         c2        -1.0\nRHS\n    RHS       c1        8.0   c2        -2.0\n    RHS       cost      -5.0\nBOUNDS\n FR BND       a\n FX BND       b         2.0\n LO BND       c         -3.0\n PL BND       c\nENDATA\n",
      "{\"rows\":[[[0,\"1\"],[1,\"2\"]],[[1,\"1\"],[2,\"-1\"]]],\"lhs\":[\"-inf\",\"-2\"],\"rhs\":[\"8\",\"inf\"],\"lo\":[\"-inf\",\"2\",\"-3\"],\"up\":[\"inf\",\"2\",\"inf\"],\"obj\":[\"3\",\"-3/2\",\"0\"],\"sense\":1}"});
   v.push_back({".lp", "\\ a comment line\nMaximize\n obj: 2 x1 + 3 x2 - x3\nSubject To\n c1: x1 + x2 <= 10\n c2: - x1 + 2 x3 >= -4\n c3: x2 - x3 >= -2\n c4: x1 + x2 + x3 = 7\nBounds\n x1 <= 8\n -5 <= x2 <= 5\n x3 free\nEnd\n",
      "{\"rows\":[[[0,\"1\"],[1,\"1\"]],[[0,\"-1\"],[2,\"2\"]],[[1,\"1\"],[2,\"-1\"]],[[0,\"1\"],[1,\"1\"],[2,\"1\"]]],\"lhs\":[\"-inf\",\"-4\",\"-2\",\"7\"],\"rhs\":[\"10\",\"inf\",\"inf\",\"7\"],\"lo\":[\"0\",\"-5\",\"-inf\"],\"up\":[\"8\",\"5\",\"inf\"],\"obj\":[\"2\",\"3\",\"-1\"],\"sense\":1}"});
   v.push_back({".lp", "Minimize\n cost: x + 0.5 y + 1e1 z\nSubject To\n r1: 2 x + 3 y >= 6\n r2: x - y + z <= 4\n r3: z - x >= -3\nBounds\n y >= 1\n z >= -2\n z <= +inf\nEnd\n",
      "{\"rows\":[[[0,\"2\"],[1,\"3\"]],[[0,\"1\"],[1,\"-1\"],[2,\"1\"]],[[0,\"-1\"],[2,\"1\"]]],\"lhs\":[\"6\",\"-inf\",\"-3\"],\"rhs\":[\"inf\",\"4\",\"inf\"],\"lo\":[\"0\",\"1\",\"-2\"],\"up\":[\"inf\",\"inf\",\"inf\"],\"obj\":[\"1\",\"1/2\",\"10\"],\"sense\":-1}"});
   return v;
}
static std::string mutate(Rng& g, const std::string& in, std::string& what)
{
   std::string t = in; std::vector<std::string> lines; { std::istringstream is(in); std::string l; while(std::getline(is, l)) lines.push_back(l); }
   auto join = [&]() { std::string o; for(auto& l : lines) { o += l; o += '\n'; } return o; };
   int k = g.R(0, 15);
   switch(k)
   {
   case 0: what = "truncate"; return t.substr(0, (size_t)g.R(0, (int)t.size()));
   case 1: what = "deleteLine"; if(!lines.empty()) lines.erase(lines.begin() + g.R(0, (int)lines.size() - 1)); return join();
   case 2: what = "duplicateLine"; if(!lines.empty()) { int i = g.R(0, (int)lines.size() - 1); lines.insert(lines.begin() + i, lines[(size_t)i]); } return join();
   case 3: what = "swapLines"; if(lines.size() > 1) std::swap(lines[(size_t)g.R(0, (int)lines.size() - 1)], lines[(size_t)g.R(0, (int)lines.size() - 1)]); return join();
   case 4: what = "nulByte"; if(!t.empty()) t[(size_t)g.R(0, (int)t.size() - 1)] = '\0'; return t;
   case 5: what = "flipChar"; if(!t.empty()) t[(size_t)g.R(0, (int)t.size() - 1)] = (char)g.R(1, 255); return t;
   case 6: { what = "longName"; std::string big((size_t)g.R(200, 9000), 'n'); size_t p = t.find_first_of("xyabcr"); if(p != std::string::npos) t.insert(p, big); return t; }
   case 7: { what = "longLine"; std::string big((size_t)g.R(9000, 70000), ' '); if(!lines.empty()) lines[(size_t)g.R(0, (int)lines.size() - 1)] += big + "1"; return join(); }
   case 8: { what = "hugeExponent"; size_t p = t.find_first_of("0123456789"); if(p != std::string::npos) { size_t q = t.find_first_not_of("0123456789.", p); t.insert(q == std::string::npos ? t.size() : q, g.coin() ? "e99999" : "e-99999"); } return t; }
   case 9: { what = "manyDigits"; size_t p = t.find_first_of("0123456789"); if(p != std::string::npos) t.insert(p, std::string((size_t)g.R(400, 5000), '9')); return t; }
   case 10: what = "empty"; return "";
   case 11: { what = "binaryJunk"; std::string j; int n = g.R(1, 400); for(int i = 0; i < n; i++) j += (char)g.R(0, 255); return g.coin() ? j : t.substr(0, t.size() / 2) + j; }
   case 12: { what = "dropSectionHeader"; for(size_t i = 0; i < lines.size(); i++) if(!lines[i].empty() && lines[i][0] != ' ' && lines[i][0] != '\\' && g.coin(1, 3)) { lines.erase(lines.begin() + (long)i); break; } return join(); }
   case 13: { what = "duplicateName"; size_t a = t.find("r2"), b = t.find("c2"); size_t p = a != std::string::npos ? a : b; if(p != std::string::npos) t[p + 1] = '1'; return t; }
   case 14: { what = "crlf"; std::string o; for(char ch : t) { if(ch == '\n') o += '\r'; o += ch; } return o; }
   default: { what = "tokenSoup"; static const char* toks[] = {"ROWS", "COLUMNS", "RHS", "RANGES", "BOUNDS", "ENDATA", "NAME", "OBJSENSE", "MAX", "Subject To", "Bounds", "End", "free", "inf", "-inf", "<=", ">=", "=", "+", "-", ":", "1e308", "nan", "Generals", "Binary", " MI ", " BV ", " UP ", "'MARKER'", "MARKER", "'INTORG'"};
              int n = g.R(1, 6); for(int i = 0; i < n; i++) { size_t p = (size_t)g.R(0, (int)t.size()); t.insert(p, std::string(" ") + toks[g.R(0, 30)] + " "); } return t; }
   }
}
static void writeText(const std::string& fn, const std::string& text) { FILE* f = fopen(fn.c_str(), "wb"); if(f) { fwrite(text.data(), 1, text.size(), f); fclose(f); } }
static void wlReaders(Ctx& c, int nexec, int len)
{
   signal(SIGALRM, onAlarm);
   std::vector<SeedFile> hand = handWritten();
   for(int e = 0; e < nexec; e++)
   {
      T().line("{\"a\":\"Reset\"}");
      c.objs.clear(); c.nextId = 0; g_wellScaled = true;
      int o = createObj(c); SoPlex& s = *c.objs[o];
      bool rational = c.rng.coin(1, 3);
      if(rational) { setInt(c, o, "SYNCMODE", SoPlex::SYNCMODE, SoPlex::SYNCMODE_AUTO); setInt(c, o, "READMODE", SoPlex::READMODE, SoPlex::READMODE_RATIONAL); }
      for(int step = 0; step < len; step++)
      {
         // ---- pick a seed file
         SeedFile sf;
         if(c.rng.coin(1, 3)) sf = hand[(size_t)c.rng.R(0, (int)hand.size() - 1)];
         else
         {
            LPData L = genWitnessed(c.rng, 4, "OPT", 0); SoPlex w; w.setIntParam(SoPlex::VERBOSITY, 0); w.setIntParam(SoPlex::OBJSENSE, L.sense);
            for(int j = 0; j < L.n; j++) { DSVector ev; w.addColReal(LPCol(L.c[j], ev, L.up[j], L.lo[j])); } for(int i = 0; i < L.m; i++) { DSVector v; spRowOf(L, i, v); w.addRowReal(LPRow(L.lhs[i], v, L.rhs[i])); }
            bool hasFree = false; for(int i = 0; i < L.m; i++) if(L.lhs[i] <= -infinity && L.rhs[i] >= infinity) hasFree = true;
            sf.ext = (c.rng.coin() && !hasFree) ? ".mps" : ".lp"; std::string tmp = g_tmpdir + "/seed" + sf.ext; w.writeFile(tmp.c_str()); std::ifstream f(tmp, std::ios::binary); std::stringstream ss; ss << f.rdbuf(); sf.text = ss.str(); sf.expect = "";
         }
         std::string what = "none", text = sf.text; if(c.rng.coin(3, 4)) text = mutate(c.rng, sf.text, what);
         bool gz = false;
         std::string fn = g_tmpdir + "/in" + std::to_string(e) + "_" + std::to_string(step) + sf.ext; writeText(fn, text);
         if(c.rng.coin(1, 8)) { std::string cmd = "gzip -f '" + fn + "' 2>/dev/null"; if(system(cmd.c_str()) == 0) { fn += ".gz"; gz = true; } }
         // ---- read
         // the largest decimal exponent a reader can see in this text (the LP reader strips blanks before it tokenizes): exact
         // arithmetic makes the rational readers pay for it (KF-36)
         long maxexp = 0; { std::string z; for(char ch : text) if(ch != ' ' && ch != '\t') z += ch;
            for(size_t i = 1; i + 1 < z.size(); i++) if((z[i] == 'e' || z[i] == 'E') && isdigit((unsigned char)z[i - 1])) { size_t k = i + 1; if(k < z.size() && (z[k] == '+' || z[k] == '-')) k++; long v = 0; int nd = 0; while(k < z.size() && isdigit((unsigned char)z[k]) && nd < 12) { v = v * 10 + (z[k] - '0'); k++; nd++; } if(v > maxexp) maxexp = v; } }
         NameSet rn, cn; pending() = "readFile " + what + " " + sf.ext + (gz ? ".gz" : "") + (rational ? " rational" : " real") + " maxexp=" + std::to_string(maxexp);
         vAlarm(10); bool ret = s.readFile(fn.c_str(), &rn, &cn); vAlarm(0);
         c.modsSinceBasis[o] = 1; c.noInternal[o] = false;
         {
            J ev; ev.s("a", "readFile").i("o", o).s("ext", sf.ext).b("gz", gz).b("rational", rational).s("mutation", what).b("ret", ret).i("nRowNames", rn.num()).i("nColNames", cn.num())
              .raw("expect", (what == "none" && !sf.expect.empty()) ? sf.expect : std::string("{}")).b("hasExpect", what == "none" && !sf.expect.empty()).i("bytes", (long)text.size());
            emit(c, o, ev);
         }
         remove(fn.c_str());
         // ---- the object must be usable: solve what was read (any honest outcome), clear, load a witnessed LP, solve it correctly
         bool tame = true;          // a solve is only judged on LPs without absurd numbers (a reader accepts 1e+5000 as a coefficient)
         for(int j = 0; j < s.numCols() && tame; j++) { tame = std::fabs(s.objReal(j)) < 1e15; DSVector cv; s.getColVectorReal(j, cv); for(int k = 0; k < cv.size(); k++) tame = tame && std::fabs(cv.value(k)) < 1e15 && std::fabs(cv.value(k)) > 1e-15; }
         if(ret && tame && s.numRows() > 0 && s.numCols() > 0 && s.numRows() <= 8 && s.numCols() <= 8 && !rational && c.rng.coin())
         { setInt(c, o, "ITERLIMIT", SoPlex::ITERLIMIT, 50); SolveOpts so; so.complete = false; so.limited = true; vAlarm(30); optimize(c, o, so); vAlarm(0); setInt(c, o, "ITERLIMIT", SoPlex::ITERLIMIT, -1); }
         if(c.rng.coin(1, 2))
         {
            pending() = "clearLPReal after read"; s.clearLPReal(); modEvent(c, o, "clearLP", "{}");
            if(!rational)
            {
               LPData L = genWitnessed(c.rng, 4, c.rng.coin(3, 4) ? "OPT" : "INF", 0); loadLP(c, o, L, true); witness(c, o, L);
               if(s.numRows() > 0 && s.numCols() > 0) { SolveOpts so; so.complete = true; vAlarm(30); optimize(c, o, so); vAlarm(0); }
               // a basis file for this LP: unchanged or mutated
               if(s.hasBasis() && c.rng.coin())
               {
                  std::string bf = g_tmpdir + "/b" + std::to_string(e) + "_" + std::to_string(step) + ".bas"; s.writeBasisFile(bf.c_str());
                  std::ifstream f(bf, std::ios::binary); std::stringstream ss; ss << f.rdbuf(); std::string bt = ss.str(), bw = "none"; if(c.rng.coin(3, 4)) bt = mutate(c.rng, bt, bw); writeText(bf, bt);
                  pending() = "readBasisFile " + bw; vAlarm(10); bool br = s.readBasisFile(bf.c_str()); vAlarm(0); remove(bf.c_str());
                  J ev; ev.s("a", "readBasisFuzz").i("o", o).s("mutation", bw).b("ret", br); emit(c, o, ev); c.modsSinceBasis[o] = 1;
                  SolveOpts so; so.complete = true; vAlarm(30); optimize(c, o, so); vAlarm(0);
               }
               s.clearLPReal(); modEvent(c, o, "clearLP", "{}");
            }
         }
      }
   }
}

// C16 in exact mode: one optimize() runs several floating-point solves; the iteration limit is a budget for the whole call
static void wlLimitsQ(Ctx& c, int nexec, int len)
{
   for(int e = 0; e < nexec; e++)
   {
      T().line("{\"a\":\"Reset\"}");
      c.objs.clear(); c.nextId = 0; g_wellScaled = false;
      LPDataQ Q = genWitnessedQ(c.rng, 5, c.rng.coin(4, 5) ? "OPT" : "INF", true);
      // an objective far below the floating-point tolerances: the first floating-point solve stops early and the pivots
      // happen in the solves of the refinement rounds, so that the limit has to hold ACROSS the solves of one call
      auto tiny = [&](LPDataQ& P) { Rational t(1); for(int i = 0; i < 40; i++) t /= Rational(2); for(auto& v : P.c) v *= t; for(auto& v : P.d) v *= t; for(auto& v : P.y) v *= t; };
      int shape = c.rng.R(0, 3);
      if(shape == 1) tiny(Q);
      else if(shape >= 2 && Q.kind == "OPT")
      {
         // two independent blocks, the second with a tiny objective: pivots in the first solve AND in the refinement rounds
         LPDataQ P = genWitnessedQ(c.rng, 3, "OPT", false);
         if(P.sense != Q.sense) { P.sense = Q.sense; for(auto& v : P.c) v = -v; for(auto& v : P.d) v = -v; for(auto& v : P.y) v = -v; }
         tiny(P);
         for(auto& row : Q.A) row.resize(Q.n + P.n, Rational(0));
         for(int i = 0; i < P.m; i++) { std::vector<Rational> row(Q.n + P.n, Rational(0)); for(int j = 0; j < P.n; j++) row[Q.n + j] = P.A[i][j]; Q.A.push_back(row); }
         auto app = [](std::vector<Rational>& a, const std::vector<Rational>& b) { a.insert(a.end(), b.begin(), b.end()); };
         app(Q.lhs, P.lhs); app(Q.rhs, P.rhs); app(Q.lo, P.lo); app(Q.up, P.up); app(Q.c, P.c); app(Q.x, P.x); app(Q.y, P.y); app(Q.d, P.d);
         Q.n += P.n; Q.m += P.m;
      }
      unsigned long cfg = c.rng.g(); int family = c.rng.coin(1, 3) ? 2 : 0;
      auto fresh = [&]() { int o = createObj(c); setInt(c, o, "SYNCMODE", SoPlex::SYNCMODE, SoPlex::SYNCMODE_AUTO);
                           Rng saved = c.rng; c.rng = Rng(cfg); exactConfig(c, o, family); c.rng = saved; loadLPQ(c, o, Q); witnessQ(c, o, Q); return o; };
      // termination of the unlimited solve is C03's business: an LP the exact solver does not decide within its time limit is skipped here
      int base = fresh(); SolveOpts so; so.complete = false; int bst = optimizeQ(c, base, so); int N = c.objs[base]->numIterations(); destroyObj(c, base);
      if(bst != (int)SPxSolver::OPTIMAL && bst != (int)SPxSolver::INFEASIBLE && bst != (int)SPxSolver::UNBOUNDED) continue;
      for(int k = 0; k <= std::min(N, len); k++)
      {
         int o = fresh(); setInt(c, o, "ITERLIMIT", SoPlex::ITERLIMIT, k);
         SolveOpts lim; lim.limited = true; lim.complete = false; optimizeQ(c, o, lim);
         setInt(c, o, "ITERLIMIT", SoPlex::ITERLIMIT, -1); SolveOpts fin; fin.complete = true; optimizeQ(c, o, fin); destroyObj(c, o);
      }
   }
}

// ---------------------------------------------------------------- C14: basis files
static std::string fileTokens(const std::string& fn)
{
   std::ifstream in(fn); std::string line; std::ostringstream o; o << "["; bool first = true;
   while(std::getline(in, line))
   {
      std::istringstream ls(line); std::string tok; std::ostringstream t; t << "["; bool f2 = true;
      while(ls >> tok) { t << (f2 ? "" : ",") << jstr(tok); f2 = false; }
      t << "]"; o << (first ? "" : ",") << t.str(); first = false;
   }
   o << "]"; return o.str();
}
static void basisFileRoundTrip(Ctx& c, int o)
{
   SoPlex& s = *c.objs[o]; int nr = s.numRows(), nc = s.numCols();
   if(!s.hasBasis()) return;
   bool userNames = c.rng.coin(), cpx = c.rng.coin(1, 3);
   NameSet rn, cn; std::vector<std::string> rnames, cnames;
   for(int i = 0; i < nr; i++) { std::string n = userNames ? "R" + std::to_string(i) + "x" : "C" + std::to_string(i); rnames.push_back(n); if(userNames) rn.add(n.c_str()); }
   for(int j = 0; j < nc; j++) { std::string n = userNames ? "V" + std::to_string(j) + "y" : "x" + std::to_string(j); cnames.push_back(n); if(userNames) cn.add(n.c_str()); }
   std::string fn = g_tmpdir + "/b" + std::to_string(c.rng.R(0, 1 << 30)) + ".bas";
   pending() = "writeBasisFile";
   bool wret = s.writeBasisFile(fn.c_str(), userNames ? &rn : nullptr, userNames ? &cn : nullptr, cpx);
   std::string toks = fileTokens(fn);
   auto names = [&](const std::vector<std::string>& v) { return jarr((int)v.size(), [&](int i) { return jstr(v[i]); }); };
   // read into a NEW object holding the same LP
   {
      int id = c.nextId++; c.objs[id].reset(new SoPlex()); c.noInternal[id] = false; c.modsSinceBasis[id] = 0;
      SoPlex& f = *c.objs[id]; f.setIntParam(SoPlex::VERBOSITY, 0);
      { J ev; ev.s("a", "create").i("o", id); emit(c, id, ev); }
      f.setSettings(s.settings());
      { J g; g.i("sense", f.intParam(SoPlex::OBJSENSE)).q("offset", f.realParam(SoPlex::OBJ_OFFSET)).q("ftol", f.realParam(SoPlex::FEASTOL)).q("otol", f.realParam(SoPlex::OPTTOL))
           .i("iterlimit", f.intParam(SoPlex::ITERLIMIT)).b("ensureray", f.boolParam(SoPlex::ENSURERAY)).i("sync", f.intParam(SoPlex::SYNCMODE)).q("epsz", f.realParam(SoPlex::EPSILON_ZERO))
           .q("tlimit", f.realParam(SoPlex::TIMELIMIT)).q("objlo", f.realParam(SoPlex::OBJLIMIT_LOWER)).q("objup", f.realParam(SoPlex::OBJLIMIT_UPPER));
        J ev; ev.s("a", "setSettingsFrom").i("o", id).i("src", o).raw("g", g.str()); emit(c, id, ev); }
      for(int j = 0; j < nc; j++) { DSVector e; f.addColReal(LPCol(s.objReal(j), e, s.upperReal(j), s.lowerReal(j))); modEvent(c, id, "addCol", colJson(s.objReal(j), s.lowerReal(j), "[]", s.upperReal(j))); }
      for(int i = 0; i < nr; i++) { DSVector r; s.getRowVectorReal(i, r); f.addRowReal(LPRow(s.lhsReal(i), r, s.rhsReal(i))); modEvent(c, id, "addRow", rowJson(s.lhsReal(i), spReal(r), s.rhsReal(i))); }
      pending() = "readBasisFile(new object)";
      bool rret = f.readBasisFile(fn.c_str(), userNames ? &rn : nullptr, userNames ? &cn : nullptr);
      c.modsSinceBasis[id] = 0;
      J ev; ev.s("a", "basisFile").i("o", id).i("src", o).b("cpx", cpx).b("userNames", userNames).b("wret", wret).b("rret", rret)
         .raw("file", toks).raw("rnames", names(rnames)).raw("cnames", names(cnames));
      emit(c, id, ev);
      queryBasis(c, id);
      if(c.rng.coin()) { SolveOpts so; so.complete = false; optimize(c, id, so); }      // started from the restored basis: same verdict (memo)
      destroyObj(c, id);
   }
   // read back into the SAME object
   {
      pending() = "readBasisFile(same object)";
      bool rret = s.readBasisFile(fn.c_str(), userNames ? &rn : nullptr, userNames ? &cn : nullptr);
      c.modsSinceBasis[o] = 0;
      J ev; ev.s("a", "basisFile").i("o", o).i("src", o).b("cpx", cpx).b("userNames", userNames).b("wret", wret).b("rret", rret)
         .raw("file", toks).raw("rnames", names(rnames)).raw("cnames", names(cnames));
      emit(c, o, ev);
   }
   remove(fn.c_str());
}
// state files: LP (.mps), basis (.bas) and settings (.set) written by writeStateReal and loaded into a NEW object
static void stateRoundTrip(Ctx& c, int o)
{
   SoPlex& s = *c.objs[o]; int nr = s.numRows(), nc = s.numCols();
   if(!s.hasBasis()) return;
   bool userNames = c.rng.coin();
   NameSet rn, cn;
   for(int i = 0; i < nr; i++) { std::string n = "R" + std::to_string(i) + "x"; if(userNames) rn.add(n.c_str()); }
   for(int j = 0; j < nc; j++) { std::string n = "V" + std::to_string(j) + "y"; if(userNames) cn.add(n.c_str()); }
   std::string base = g_tmpdir + "/st" + std::to_string(c.rng.R(0, 1 << 30));
   pending() = "writeStateReal";
   std::string pdigSrc = paramsDigest(s);
   s.writeStateReal(base.c_str(), userNames ? &rn : nullptr, userNames ? &cn : nullptr, false, true);
   int id = c.nextId++; c.objs[id].reset(new SoPlex()); c.noInternal[id] = true; c.modsSinceBasis[id] = 0;
   SoPlex& f = *c.objs[id]; f.setIntParam(SoPlex::VERBOSITY, 0);
   pending() = "load state files";
   bool r1 = f.loadSettingsFile((base + ".set").c_str()); f.setIntParam(SoPlex::VERBOSITY, 0);
   NameSet rn2, cn2;
   bool r2 = f.readFile((base + ".mps").c_str(), &rn2, &cn2);
   bool r3 = f.readBasisFile((base + ".bas").c_str(), &rn2, &cn2);
   J ev; ev.s("a", "stateFile").i("o", id).i("src", o).b("userNames", userNames).b("rset", r1).b("rlp", r2).b("rbas", r3).s("pdigSrc", pdigSrc).s("pdigNew", paramsDigest(f))
      .i("nRowNames", rn2.num()).i("nColNames", cn2.num());
   emit(c, id, ev);
   queryBasis(c, id);
   { SolveOpts so; so.complete = false; optimize(c, id, so); }
   destroyObj(c, id);
   remove((base + ".set").c_str()); remove((base + ".mps").c_str()); remove((base + ".bas").c_str());
}
static void wlBasFile(Ctx& c, int nexec, int len)
{
   for(int e = 0; e < nexec; e++)
   {
      T().line("{\"a\":\"Reset\"}");
      c.objs.clear(); c.nextId = 0;
      int o = createObj(c);
      if(c.rng.coin()) fullConfig(c, o);
      LPData L = genWitnessed(c.rng, 5, c.rng.coin(3, 4) ? "OPT" : (c.rng.coin() ? "INF" : "UNB"), 0);
      loadLP(c, o, L, false);
      for(int step = 0; step < len; step++)
      {
         int k = c.rng.R(0, 99);
         if(k < 40) { SolveOpts so; so.complete = false; if(c.rng.coin(1, 4)) { setInt(c, o, "ITERLIMIT", SoPlex::ITERLIMIT, c.rng.R(0, 2)); so.limited = true; }
                      optimize(c, o, so); if(so.limited) setInt(c, o, "ITERLIMIT", SoPlex::ITERLIMIT, -1); basisFileRoundTrip(c, o); if(c.rng.coin()) stateRoundTrip(c, o); }
         else if(k < 90) { setRandomBasis(c, o); basisFileRoundTrip(c, o); if(c.rng.coin(1, 3)) stateRoundTrip(c, o); }
         else { clearBasis(c, o); }
      }
   }
}

static thread_local int g_execIndex, g_nexec;
// ---------------------------------------------------------------- C12: numeric literals (GEN: the literals come from TLC)
static bool readOneCoef(const std::string& fileText, const char* ext, int readMode, std::string& outRat, std::string& outReal, bool& ok)
{
   std::string fn = g_tmpdir + "/lit." + ext; { std::ofstream f(fn); f << fileText; }
   SoPlex s; s.setIntParam(SoPlex::VERBOSITY, 0); s.setIntParam(SoPlex::READMODE, readMode);
   if(readMode == SoPlex::READMODE_RATIONAL) s.setIntParam(SoPlex::SYNCMODE, SoPlex::SYNCMODE_AUTO);
   ok = s.readFile(fn.c_str());
   outRat = "none"; outReal = "none";
   if(ok && s.numCols() >= 1)
   {
      outReal = qdraw(s.objReal(0));
      if(readMode == SoPlex::READMODE_RATIONAL && s.numColsRational() >= 1) outRat = qmpq(s.objRational(0).backend().data());
   }
   remove(fn.c_str());
   return ok;
}
static void wlLits(Ctx& c, int shard, int nshards)
{
   const char* path = getenv("VERIF_LITS"); if(!path) { fprintf(stderr, "VERIF_LITS not set\n"); _exit(2); }
   std::ifstream in(path); std::string line; int k = 0;
   T().line("{\"a\":\"Reset\"}");
   while(std::getline(in, line))
   {
      if((k++ % nshards) != shard) continue;
      size_t a = line.find("\"text\":\""); if(a == std::string::npos) continue; a += 8; size_t b = line.find('"', a); std::string lit = line.substr(a, b - a);
      J ev; ev.s("a", "literal").s("text", lit);
      pending() = "ratFromString " + lit;
      try { Rational r = ratFromString(lit.c_str()); ev.s("ratFromString", qmpq(r.backend().data())); }
      catch(const std::exception& ex) { ev.s("ratFromString", "throws"); }
      bool frac = lit.find('/') != std::string::npos;
      // LP format: the literal is the objective coefficient of x0 (a leading sign is part of the term)
      std::string lp = "Minimize\n obj: " + lit + " x0\nSubject To\n c1: x0 >= 1\nEnd\n";
      std::string mps = "NAME lit\nROWS\n N obj\n G c1\nCOLUMNS\n x0 obj " + lit + " c1 1\nRHS\n rhs c1 1\nENDATA\n";
      std::string q, r; bool ok;
      pending() = "LP rational " + lit; readOneCoef(lp, "lp", SoPlex::READMODE_RATIONAL, q, r, ok); ev.b("lpRatOk", ok).s("lpRat", q);
      pending() = "LP real " + lit; readOneCoef(lp, "lp", SoPlex::READMODE_REAL, q, r, ok); ev.b("lpRealOk", ok).s("lpReal", r);
      pending() = "MPS rational " + lit; readOneCoef(mps, "mps", SoPlex::READMODE_RATIONAL, q, r, ok); ev.b("mpsRatOk", ok).s("mpsRat", q);
      pending() = "MPS real " + lit; readOneCoef(mps, "mps", SoPlex::READMODE_REAL, q, r, ok); ev.b("mpsRealOk", ok).s("mpsReal", r);
      ev.b("frac", frac);
      T().line(ev.str());
   }
}

// ---------------------------------------------------------------- C12: write a file, read it back into a new object
static std::string namesOf(const NameSet& ns) { return jarr(ns.num(), [&](int i) { return jstr(ns[i]); }); }
// allowUserNames: name sets are keyed by the keys of the LP's rows/columns, which equal the indices only as long as
// nothing has been removed
static void fileRoundTrip(Ctx& c, int o, bool rational, bool allowUserNames)
{
   SoPlex& s = *c.objs[o];
   bool mps = c.rng.coin(), wzo = c.rng.coin(), userNames = allowUserNames && c.rng.coin(), unscale = true;
   int nr = s.numRows(), nc = s.numCols();
   NameSet rn, cn; std::vector<std::string> rnames, cnames;
   for(int i = 0; i < nr; i++) { std::string n = userNames ? "row" + std::to_string(i) + "_" : "C" + std::to_string(i); rnames.push_back(n); if(userNames) rn.add(n.c_str()); }
   for(int j = 0; j < nc; j++) { std::string n = userNames ? "var" + std::to_string(j) : "x" + std::to_string(j); cnames.push_back(n); if(userNames) cn.add(n.c_str()); }
   std::string fn = g_tmpdir + "/f" + std::to_string(c.rng.R(0, 1 << 30)) + (mps ? ".mps" : ".lp");
   pending() = mps ? "writeFile mps" : "writeFile lp";
   bool wret = rational ? s.writeFileRational(fn.c_str(), userNames ? &rn : nullptr, userNames ? &cn : nullptr, nullptr, wzo)
                        : s.writeFileReal(fn.c_str(), userNames ? &rn : nullptr, userNames ? &cn : nullptr, nullptr, unscale, wzo);
   int id = c.nextId++; c.objs[id].reset(new SoPlex()); c.noInternal[id] = true; c.modsSinceBasis[id] = 0;
   SoPlex& f = *c.objs[id]; f.setIntParam(SoPlex::VERBOSITY, 0);
   if(rational) { f.setIntParam(SoPlex::READMODE, SoPlex::READMODE_RATIONAL); f.setIntParam(SoPlex::SYNCMODE, SoPlex::SYNCMODE_AUTO); }
   NameSet rn2, cn2;
   pending() = mps ? "readFile mps" : "readFile lp";
   bool rret = f.readFile(fn.c_str(), &rn2, &cn2);
   auto names = [&](const std::vector<std::string>& v) { return jarr((int)v.size(), [&](int i) { return jstr(v[i]); }); };
   J ev; ev.s("a", "fileRoundTrip").i("o", id).i("src", o).s("fmt", mps ? "mps" : "lp").s("mode", rational ? "rational" : "real").b("wzo", wzo).b("wret", wret).b("rret", rret)
      .raw("srcRowNames", names(rnames)).raw("srcColNames", names(cnames)).raw("rowNames", namesOf(rn2)).raw("colNames", namesOf(cn2));
   emit(c, id, ev);
   if(rret && f.numRows() > 0 && f.numCols() > 0 && !rational) { SolveOpts so; so.complete = false; optimize(c, id, so); }
   destroyObj(c, id);
   remove(fn.c_str());
}
// the dual LP written by writeDualFileReal has the same optimal value as the primal
static void dualFileSolve(Ctx& c, int o)
{
   SoPlex& s = *c.objs[o];
   std::string fn = g_tmpdir + "/d" + std::to_string(c.rng.R(0, 1 << 30)) + ".lp";
   pending() = "writeDualFileReal";
   bool wret = s.writeDualFileReal(fn.c_str());
   SoPlex f; f.setIntParam(SoPlex::VERBOSITY, 0);
   pending() = "readFile dual";
   bool rret = f.readFile(fn.c_str());
   int st = -99; double val = 0;
   if(rret && f.numCols() > 0 && f.numRows() > 0) { pending() = "optimize dual"; st = (int)f.optimize(); val = f.objValueReal(); }
   J ev; ev.s("a", "dualFile").i("o", o).b("wret", wret).b("rret", rret).i("status", st).q("objval", val).i("nr", f.numRows()).i("nc", f.numCols());
   emit(c, o, ev);
   remove(fn.c_str());
}
static void wlFiles(Ctx& c, int nexec, int len)
{
   for(int e = 0; e < nexec; e++)
   {
      T().line("{\"a\":\"Reset\"}");
      c.objs.clear(); c.nextId = 0;
      Gen gen{c.rng, c.rng.coin(1, 3) ? 2 : 0};
      int o = createObj(c);
      bool rational = c.rng.coin(1, 3);
      if(rational) setInt(c, o, "SYNCMODE", SoPlex::SYNCMODE, SoPlex::SYNCMODE_AUTO);
      setInt(c, o, "SCALER", SoPlex::SCALER, c.rng.coin() ? 0 : c.rng.R(1, 4));
      if(rational) { LPDataQ Q = genWitnessedQ(c.rng, 5, c.rng.coin(3, 4) ? "OPT" : "INF", false); loadLPQ(c, o, Q); }
      else { LPData L = genWitnessed(c.rng, 5, c.rng.coin(3, 4) ? "OPT" : (c.rng.coin() ? "INF" : "UNB"), c.rng.coin(1, 3) ? 6 : 0); loadLP(c, o, L, false); witness(c, o, L);
             if(L.kind == "OPT" && c.rng.coin()) dualFileSolve(c, o); }
      bool modified = false;
      for(int step = 0; step < len; step++)
      {
         int k = c.rng.R(0, 99); SoPlex& s = *c.objs[o];
         if(k < 50) fileRoundTrip(c, o, rational, !modified);
         else if(k < 70 && !rational) { if(s.numCols() > 0 && s.numRows() > 0) { SolveOpts so; so.complete = false; optimize(c, o, so); } }   // afterwards the stored LP may be scaled
         else if(!rational) { int tries = 0; while(!randomModReal(c, o, gen, 6) && ++tries < 50) {} modified = true; }
      }
   }
}

// C04: every point of a history at which hasBasis() is true; set/read back; transplant into a new object
static void wlBasis(Ctx& c, int nexec, int len)
{
   for(int e = 0; e < nexec; e++)
   {
      T().line("{\"a\":\"Reset\"}");
      c.objs.clear(); c.nextId = 0;
      Gen gen{c.rng, 0};
      int o = createObj(c);
      if(c.rng.coin()) fullConfig(c, o);
      LPData L = genWitnessed(c.rng, 5, c.rng.coin(3, 4) ? "OPT" : (c.rng.coin() ? "INF" : "UNB"), 0);
      loadLP(c, o, L, false);
      int maxDim = 6; bool arbitraryBasis = false;
      for(int step = 0; step < len; step++)
      {
         int k = c.rng.R(0, 99);
         SoPlex& s = *c.objs[o];
         bool solvable = s.numCols() > 0 && s.numRows() > 0;
         if(k < 35) { int tries = 0; while(!randomModReal(c, o, gen, maxDim) && ++tries < 50) {} queryBasis(c, o); }
         else if(k < 65) { if(!solvable) continue; SolveOpts so; so.complete = !arbitraryBasis; optimize(c, o, so); arbitraryBasis = false; queryBasis(c, o);
                           if(c.rng.coin()) freshSolve(c, o, true); }
         else if(k < 85) { setRandomBasis(c, o); arbitraryBasis = true; queryBasis(c, o); }
         else if(k < 90) { clearBasis(c, o); arbitraryBasis = false; queryBasis(c, o); }
         else { if(!solvable) continue; setInt(c, o, "ITERLIMIT", SoPlex::ITERLIMIT, c.rng.R(0, 3)); SolveOpts so; so.limited = true; so.complete = false; optimize(c, o, so); queryBasis(c, o);
                setInt(c, o, "ITERLIMIT", SoPlex::ITERLIMIT, -1); }
      }
   }
}

static int runWorkload(Ctx& c, const std::string& wl, int len)
{
   if(wl == "spin") { volatile double x = 0; for(long i = 0; i < (long)len * 100000000L; i++) x += 1e-9 * i; }   // C18 control: CPU load without any library call
   else if(wl == "mods") wlMods(c, 1, len, 0);
   else if(wl == "mods2") { g_wellScaled = false; wlMods(c, 1, len, 1); }
   else if(wl == "certx") { g_exotic = true; wlCert(c, 1, len, 5, 0); }
   else if(wl == "certbigx") { g_exotic = true; wlCert(c, 1, len, 14, 0); }
   else if(wl == "cert") wlCert(c, 1, len, 5, 0);
   else if(wl == "cert2") wlCert(c, 1, len, 5, 0, 1);
   else if(wl == "certbig2") wlCert(c, 1, len, 14, 0, 1);
   else if(wl == "basis") wlBasis(c, 1, len);
   else if(wl == "sync") wlSync(c, 1, len);
   else if(wl == "copy") wlCopy(c, 1, len);
   else if(wl == "files") { g_wellScaled = false; wlFiles(c, 1, len); }
   else if(wl == "lits") wlLits(c, g_execIndex, g_nexec);
   else if(wl == "basfile") wlBasFile(c, 1, len);
   else if(wl == "exact") wlExact(c, 1, len, 5);
   else if(wl == "exactbig") wlExact(c, 1, len, 12);
   else if(wl == "limitsq") { wlLimitsQ(c, 1, len); }
   else if(wl == "readers") { wlReaders(c, 1, len); }
   else if(wl == "presolve") { wlPresolve(c, 1, len); }
   else if(wl == "cint") { wlCInt(c, 1, len); }
   else if(wl == "binvq") { g_wellScaled = false; wlBinvQ(c, 1, len); }
   else if(wl == "binv") { g_wellScaled = false; wlBinv(c, 1, len); }
   else if(wl == "scale") { g_wellScaled = false; wlScale(c, 1, len); }
   else if(wl == "scalerbare") wlScalerBare(c, 1, len);
   else if(wl == "limits") wlLimits(c, 1, len, 6);
   else if(wl == "limitsbig") wlLimits(c, 1, len, 14);
   else if(wl == "certbig") wlCert(c, 1, len, 14, 0);
   else if(wl == "certscaled") { g_wellScaled = false; wlCert(c, 1, len, 6, 12); }
   else { fprintf(stderr, "unknown workload %s\n", wl.c_str()); return 2; }
   return 0;
}

// ---------------------------------------------------------------- C18: the same work in K concurrent threads and alone
// workload "threads:K:wlA+wlB+...": thread t runs workload number t mod n on its own objects with its own seed, trace and
// scratch directory.  Phase A runs the K threads concurrently (released together by a barrier), phase B runs the same K
// jobs one after the other, each in a fresh thread.  The per-thread traces of phase A go to the output (each is a sequence
// of executions for TV_API), followed by an "alone" event that says whether the phase-B trace of the same job is identical.
#include <thread>
#include <atomic>
static std::vector<std::string> splitStr(const std::string& s, char sep) { std::vector<std::string> r; std::string cur; for(char ch : s) { if(ch == sep) { r.push_back(cur); cur.clear(); } else cur += ch; } r.push_back(cur); return r; }
static void threadJob(const std::string& wlspec, unsigned long seed, int len, const std::string& trace, const std::string& tmp, int e, int nexec, std::atomic<int>* gate, int K)
{
   g_tid = gate ? atoi(trace.substr(trace.rfind('t') + 1).c_str()) : 1000; g_threaded = true; g_wellScaled = true; g_exotic = false; g_execIndex = e; g_nexec = nexec;
   std::string wl = wlspec; { size_t at = wl.find('@'); if(at != std::string::npos) { len = atoi(wl.c_str() + at + 1); wl = wl.substr(0, at); } }   // "workload@len"
   g_tmpdir = tmp; { std::string cmd = "rm -rf '" + tmp + "' && mkdir -p '" + tmp + "'"; if(system(cmd.c_str()) != 0) return; }
   T().f = fopen(trace.c_str(), "w"); if(!T().f) return;
   setvbuf(T().f, nullptr, _IOLBF, 1 << 16);
   if(gate) { gate->fetch_add(1); while(gate->load() < K) std::this_thread::yield(); }
   Ctx c(seed);
   // an exception that escapes the public API ends this thread's work (its trace ends in a Crash line, as in the
   // single-threaded drivers) but not the work of the other threads
   try { runWorkload(c, wl, len); }
   catch(const std::exception& e) { std::string msg = std::string("exception: ") + e.what(); for(char& ch : msg) if(ch == '"' || ch == '\\' || ch < 0x20) ch = ' '; crashLine(msg.c_str()); }
   catch(...) { crashLine("unknown exception (not derived from std::exception, e.g. soplex::SPxException)"); }
   c.objs.clear();
   T().close();
}
static int runThreads(const std::string& spec, unsigned long seed, int e, int nexec, int len, const std::string& out)
{
   std::vector<std::string> parts = splitStr(spec, ':');
   if(parts.size() != 3) { fprintf(stderr, "threads:K:wl+wl+...\n"); return 2; }
   int K = atoi(parts[1].c_str()); std::vector<std::string> wls = splitStr(parts[2], '+');
   auto tr = [&](char ph, int t) { return out + "." + ph + std::to_string(t); };
   auto tmp = [&](int t) { return out + ".d/t" + std::to_string(t); };
   auto sd = [&](int t) { return (seed * 1000003UL + (unsigned long)e) * 131UL + (unsigned long)t; };
   if(getenv("VERIF_ONLYT")) { int t = atoi(getenv("VERIF_ONLYT")); threadJob(wls[t % wls.size()], sd(t), len, tr('s', t), tmp(t), e, nexec, nullptr, K); return 0; }   // debugging: one job, on the main thread
   {
      std::atomic<int> gate(0); std::vector<std::thread> th;
      for(int t = 0; t < K; t++) th.emplace_back(threadJob, wls[t % wls.size()], sd(t), len, tr('t', t), tmp(t), e, nexec, &gate, K);
      for(auto& x : th) x.join();
   }
   for(int t = 0; t < K; t++) { std::thread x(threadJob, wls[t % wls.size()], sd(t), len, tr('s', t), tmp(t), e, nexec, (std::atomic<int>*)nullptr, K); x.join(); }
   FILE* f = fopen(out.c_str(), "a"); if(!f) return 2;
   for(int t = 0; t < K; t++)
   {
      std::ifstream a(tr('t', t)), b(tr('s', t)); std::string la, lb; long line = 0, diff = 0; bool same = true;
      while(true)
      {
         bool ga = (bool)std::getline(a, la), gb = (bool)std::getline(b, lb); line++;
         if(ga) { fputs(la.c_str(), f); fputc('\n', f); }
         if(same && (ga != gb || (ga && la != lb))) { same = false; diff = line; }
         if(!ga) break;
      }
      fprintf(f, "{\"a\":\"alone\",\"t\":%d,\"threads\":%d,\"wl\":\"%s\",\"same\":%s,\"line\":%ld}\n", t, K, wls[t % wls.size()].c_str(), same ? "true" : "false", diff);
      if(same || !getenv("VERIF_KEEP")) { remove(tr('t', t).c_str()); remove(tr('s', t).c_str()); }
   }
   fclose(f);
   return 0;
}

// every execution runs in its own child process: a crash ends that execution (its trace ends in a Crash line)
// but not the remaining executions of the shard
#include <sys/wait.h>
#if defined(__SANITIZE_ADDRESS__)
extern "C" int __lsan_do_recoverable_leak_check();
#endif
int main(int argc, char** argv)
{
   if(argc < 6) { fprintf(stderr, "usage: api_drv <workload> <seed> <nexec> <len> <out>\n"); return 2; }
   std::string wl = argv[1]; unsigned long seed = strtoul(argv[2], nullptr, 10);
   int nexec = atoi(argv[3]), len = atoi(argv[4]);
   g_tmpdir = std::string(argv[5]) + ".d"; { std::string cmd = "mkdir -p '" + g_tmpdir + "'"; if(system(cmd.c_str()) != 0) return 2; }
   { FILE* f = fopen(argv[5], "w"); if(!f) { perror(argv[5]); return 2; } fclose(f); }
   bool nofork = getenv("VERIF_NOFORK") != nullptr;
   int onlyExec = getenv("VERIF_EXEC") ? atoi(getenv("VERIF_EXEC")) : -1;     // debugging: run one execution of the shard only
   for(int e = 0; e < nexec; e++)
   {
      if(onlyExec >= 0 && e != onlyExec) continue;
      pid_t pid = nofork ? 0 : fork();
      if(pid == 0)
      {
         if(wl.compare(0, 8, "threads:") == 0)
         {
            if(!nofork) { installCrashHandlers(); crashExitCode() = 3; }
            int rc = runThreads(wl, seed, e, nexec, len, argv[5]);
            if(!nofork) exit(rc);                            // exit, not _exit: ThreadSanitizer reports its verdict in the exit code
            if(rc) return rc;
            continue;
         }
         T().f = fopen(argv[5], "a"); if(!T().f) _exit(2);
         setvbuf(T().f, nullptr, _IOLBF, 1 << 16);          // whole lines only: a dying process must not leave half an event behind
         if(!nofork) installCrashHandlers();
         Ctx c(seed * 1000003UL + (unsigned long)e); g_execIndex = e; g_nexec = nexec;
         int rc = runWorkload(c, wl, len);
#if defined(__SANITIZE_ADDRESS__)
         c.objs.clear();
         if(__lsan_do_recoverable_leak_check()) T().line("{\"a\":\"Crash\",\"what\":\"memory leak reported by LeakSanitizer\",\"during\":\"execution\"}");
#endif
         T().close();
         if(!nofork) _exit(rc);
         if(rc) return rc;
      }
      else if(pid > 0)
      {
         int status = 0; waitpid(pid, &status, 0);
         if(WIFEXITED(status) && WEXITSTATUS(status) == 2) return 2;
         if(wl.compare(0, 8, "threads:") == 0 && !(WIFEXITED(status) && WEXITSTATUS(status) == 0))
         {
            // the execution died in one of its threads: keep what the threads had logged (the dying thread's trace ends in a Crash line)
            FILE* f = fopen(argv[5], "a"); bool crashLogged = false;
            for(int t = 0; f && t < 64; t++)
            {
               std::string tn = std::string(argv[5]) + ".t" + std::to_string(t); std::ifstream a(tn); if(!a) continue; std::string la;
               while(std::getline(a, la)) { if(la.compare(0, 12, "{\"a\":\"Crash\"") == 0) crashLogged = true; if(!la.empty() && la.back() == '}') { fputs(la.c_str(), f); fputc('\n', f); } }
               remove(tn.c_str()); remove((std::string(argv[5]) + ".s" + std::to_string(t)).c_str());
            }
            if(f && !crashLogged && !(WIFEXITED(status) && WEXITSTATUS(status) == 66)) fprintf(f, "{\"a\":\"Reset\"}\n{\"a\":\"Crash\",\"what\":\"threaded execution ended abnormally\",\"during\":\"%s\"}\n", wl.c_str());
            if(f) fclose(f);
         }
         if(WIFEXITED(status) && WEXITSTATUS(status) == 66)
         {
            // ThreadSanitizer reported something in this execution: its log (TSAN_OPTIONS log_path=<trace>.tsan) names what
            std::string logf = std::string(argv[5]) + ".tsan." + std::to_string((long)pid), kinds, la; std::ifstream lg(logf);
            while(std::getline(lg, la)) if(la.compare(0, 9, "SUMMARY: ") == 0) { std::string k = la.substr(9); size_t par = k.find(" ("); if(par != std::string::npos && k.find(" in ") != std::string::npos) k = k.substr(0, par) + k.substr(k.find(" in "));
               for(char& ch : k) if(ch == '"' || ch == '\\' || (unsigned char)ch < 0x20) ch = ' '; if(kinds.find(k) == std::string::npos && kinds.size() < 1500) kinds += (kinds.empty() ? "" : "; ") + k; }
            if(kinds.empty()) kinds = "ThreadSanitizer: report (see the .err / .tsan file next to the trace)";
            FILE* f = fopen(argv[5], "a"); if(f) { fprintf(f, "{\"a\":\"Reset\"}\n{\"a\":\"Crash\",\"what\":\"%s\",\"during\":\"%s\"}\n", kinds.c_str(), wl.c_str()); fclose(f); }
         }
         if(WIFSIGNALED(status)) { FILE* f = fopen(argv[5], "a"); if(f) { fprintf(f, "{\"a\":\"Crash\",\"what\":\"killed by signal %d\",\"during\":\"\"}\n", WTERMSIG(status)); fclose(f); } }
      }
      else return 2;
   }
   { std::string cmd = "rm -rf '" + g_tmpdir + "'"; (void)!system(cmd.c_str()); }
   return 0;
}
