// Projection of a SoPlex object onto the abstract state of spec/SoPlexAPI.tla, and the H4 probe.
#ifndef VERIF_PROJ_H
#define VERIF_PROJ_H
#include "soplex.h"
#include "vt.h"

namespace soplex_verif
{
struct Probe
{
   static bool loaded(const soplex::SoPlex& s) { return s._isRealLPLoaded; }
   static bool scaled(const soplex::SoPlex& s) { return s._isRealLPScaled; }
   static int nRowTypes(const soplex::SoPlex& s) { return s._rowTypes.size(); }
   static int nColTypes(const soplex::SoPlex& s) { return s._colTypes.size(); }
   static int rowType(const soplex::SoPlex& s, int i) { return (int)s._rowTypes[i]; }
   static int colType(const soplex::SoPlex& s, int i) { return (int)s._colTypes[i]; }
   static int ratLUStatus(const soplex::SoPlex& s) { return (int)s._rationalLUSolver.status(); }
   static double lpOffset(const soplex::SoPlex& s) { return (double)s._realLP->objOffset(); }
   static bool hasRational(const soplex::SoPlex& s) { return s._rationalLP != nullptr; }
   static soplex::SPxSolverBase<double>& solver(soplex::SoPlex& s) { return s._solver; }
   static const soplex::SPxLPBase<double>& realLP(const soplex::SoPlex& s) { return *s._realLP; }
   static int ratSense(const soplex::SoPlex& s) { return s._rationalLP->spxSense() == soplex::SPxLPRational::MAXIMIZE ? 1 : -1; }
   static const soplex::SPxScaler<double>* scaler(const soplex::SoPlex& s) { return s._scaler; }
   static int optCalls(const soplex::SoPlex& s) { return s._optimizeCalls; }
   static int unscaleCalls(const soplex::SoPlex& s) { return s._unscaleCalls; }
};
}

namespace vt
{
using namespace soplex;
typedef soplex_verif::Probe Probe;

inline std::string qrat(const Rational& r)
{
   // infinity of the rational LP is the real infinity threshold (1e100)
   static const Rational inf(1e100);
   if(r >= inf) return "inf";
   if(r <= -inf) return "-inf";
   return qmpq(r.backend().data());
}
inline std::string spReal(const SVectorBase<double>& v)
{
   std::vector<std::pair<int, std::string>> e;
   for(int k = 0; k < v.size(); k++) if(v.value(k) != 0.0) e.push_back({v.index(k), qd(v.value(k))});   // explicit zeros are counted in storedZeros
   return jsp(e);
}
inline std::string spRat(const SVectorBase<Rational>& v)
{
   std::vector<std::pair<int, std::string>> e;
   for(int k = 0; k < v.size(); k++) e.push_back({v.index(k), qrat(v.value(k))});
   return jsp(e);
}
inline std::string statuses(const SPxSolver::VarStatus* a, int n) { return jarr(n, [&](int i) { return std::to_string((int)a[i]); }); }

inline std::string projRational(SoPlex& s)
{
   J q; int nr = s.numRowsRational(), nc = s.numColsRational();
   q.i("nr", nr).i("nc", nc).i("nnz", s.numNonzerosRational()).i("storedZeros", 0);
   q.raw("rows", jarr(nr, [&](int i) { return spRat(s.rowVectorRational(i)); }));
   q.raw("cols", jarr(nc, [&](int j) { return spRat(s.colVectorRational(j)); }));
   q.raw("lhs", jarr(nr, [&](int i) { return jq(qrat(s.lhsRational(i))); }));
   q.raw("rhs", jarr(nr, [&](int i) { return jq(qrat(s.rhsRational(i))); }));
   q.raw("lo", jarr(nc, [&](int j) { return jq(qrat(s.lowerRational(j))); }));
   q.raw("up", jarr(nc, [&](int j) { return jq(qrat(s.upperRational(j))); }));
   q.raw("obj", jarr(nc, [&](int j) { return jq(qrat(s.objRational(j))); }));
   q.i("sense", Probe::ratSense(s));
   return q.str();
}
inline std::string emptyQ()
{
   return "{\"nr\":0,\"nc\":0,\"nnz\":0,\"storedZeros\":0,\"rows\":[],\"cols\":[],\"lhs\":[],\"rhs\":[],\"lo\":[],\"up\":[],\"obj\":[],\"sense\":0}";
}

// allowInternal: the caller knows that the scaler object currently selected is the one that scaled the stored LP
// (not the case for copies and after a change of the SCALER parameter on a scaled LP)
inline std::string proj(SoPlex& s, bool allowInternal = false)
{
   J o; int nr = s.numRows(), nc = s.numCols();
   o.i("nr", nr).i("nc", nc).i("nnz", s.numNonzeros());
   // numNonzeros() counts the entries of the column file; explicit zeros can be stored there as images of tiny rationals
   { int z = 0; for(int j = 0; j < nc; j++) { const SVectorBase<double>& v = s.colVectorRealInternal(j); for(int k = 0; k < v.size(); k++) if(v.value(k) == 0.0) z++; } o.i("storedZeros", z); }
   o.i("sense", Probe::realLP(s).spxSense() == SPxLPBase<double>::MAXIMIZE ? 1 : -1);
   o.i("senseParam", s.intParam(SoPlex::OBJSENSE));
   o.q("offset", Probe::lpOffset(s));
   o.q("offsetParam", s.realParam(SoPlex::OBJ_OFFSET));
   o.raw("rows", jarr(nr, [&](int i) { DSVector r; s.getRowVectorReal(i, r); return spReal(r); }));
   o.raw("cols", jarr(nc, [&](int j) { DSVector c; s.getColVectorReal(j, c); return spReal(c); }));
   o.raw("lhs", jarr(nr, [&](int i) { return jq(qd(s.lhsReal(i))); }));
   o.raw("rhs", jarr(nr, [&](int i) { return jq(qd(s.rhsReal(i))); }));
   o.raw("lo", jarr(nc, [&](int j) { return jq(qd(s.lowerReal(j))); }));
   o.raw("up", jarr(nc, [&](int j) { return jq(qd(s.upperReal(j))); }));
   o.raw("obj", jarr(nc, [&](int j) { return jq(qd(s.objReal(j))); }));
   o.raw("rtype", jarr(nr, [&](int i) { return std::to_string((int)s.rowTypeReal(i)); }));
   o.q("epsParam", s.realParam(SoPlex::EPSILON_ZERO)).q("tolEps", (double)s.tolerances()->epsilon());
   o.q("feastolParam", s.realParam(SoPlex::FEASTOL)).q("tolFeas", (double)s.tolerances()->floatingPointFeastol());
   { J cfg; cfg.i("SCALER", s.intParam(SoPlex::SCALER)).i("SIMPLIFIER", s.intParam(SoPlex::SIMPLIFIER)).i("ALGORITHM", s.intParam(SoPlex::ALGORITHM))
        .i("REPRESENTATION", s.intParam(SoPlex::REPRESENTATION)).i("PRICER", s.intParam(SoPlex::PRICER)).i("RATIOTESTER", s.intParam(SoPlex::RATIOTESTER))
        .i("STARTER", s.intParam(SoPlex::STARTER)).i("SOLUTION_POLISHING", s.intParam(SoPlex::SOLUTION_POLISHING)).i("FACTOR_UPDATE_TYPE", s.intParam(SoPlex::FACTOR_UPDATE_TYPE))
        .b("PERSISTENTSCALING", s.boolParam(SoPlex::PERSISTENTSCALING)).b("LIFTING", s.boolParam(SoPlex::LIFTING)).b("EQTRANS", s.boolParam(SoPlex::EQTRANS))
        .b("RATREC", s.boolParam(SoPlex::RATREC)).b("RATFAC", s.boolParam(SoPlex::RATFAC)).b("PRECISION_BOOSTING", s.boolParam(SoPlex::PRECISION_BOOSTING))
        .b("ITERATIVE_REFINEMENT", s.boolParam(SoPlex::ITERATIVE_REFINEMENT)).i("SOLVEMODE", s.intParam(SoPlex::SOLVEMODE)); o.raw("cfg", cfg.str()); }
   o.i("status", (int)s.status()).b("hasSol", s.hasSol()).b("hasBasis", s.hasBasis());
   if(s.hasBasis())
   {
      std::vector<SPxSolver::VarStatus> br(nr + 1), bc(nc + 1);
      s.getBasis(br.data(), bc.data());
      o.raw("brow", statuses(br.data(), nr)).raw("bcol", statuses(bc.data(), nc));
   }
   else o.raw("brow", "[]").raw("bcol", "[]");
   // C09: the LP as stored (scaled by powers of two) together with the exponents the scaler chose
   if(allowInternal && Probe::scaled(s) && Probe::loaded(s) && Probe::scaler(s) != nullptr && s.intParam(SoPlex::SCALER) != SoPlex::SCALER_OFF)
   {
      const SPxScaler<double>* sc = Probe::scaler(s);
      const SPxLPBase<double>& lp = Probe::realLP(s);
      J in;
      in.raw("rexp", jarr(nr, [&](int i) { return std::to_string(sc->getRowScaleExp(i)); }));
      in.raw("cexp", jarr(nc, [&](int j) { return std::to_string(sc->getColScaleExp(j)); }));
      in.raw("rows", jarr(nr, [&](int i) { const SVectorBase<double>& v = lp.rowVector(i); std::vector<std::pair<int, std::string>> e; for(int k = 0; k < v.size(); k++) if(v.value(k) != 0.0) e.push_back({v.index(k), qdraw(v.value(k))}); return jsp(e); }));
      in.raw("lhs", jarr(nr, [&](int i) { return jq(qd(lp.lhs(i))); })).raw("rhs", jarr(nr, [&](int i) { return jq(qd(lp.rhs(i))); }));
      in.raw("lo", jarr(nc, [&](int j) { return jq(qd(lp.lower(j))); })).raw("up", jarr(nc, [&](int j) { return jq(qd(lp.upper(j))); }));
      in.raw("maxobj", jarr(nc, [&](int j) { return jq(qdraw(lp.maxObj(j))); }));
      o.b("hasInternal", true).raw("internal", in.str());
   }
   else o.b("hasInternal", false).raw("internal", "{\"rexp\":[],\"cexp\":[],\"rows\":[],\"lhs\":[],\"rhs\":[],\"lo\":[],\"up\":[],\"maxobj\":[]}");
   int sync = s.intParam(SoPlex::SYNCMODE);
   bool hasQ = Probe::hasRational(s);
   o.i("sync", sync).b("hasQ", hasQ);
   o.b("loaded", Probe::loaded(s)).b("scaled", Probe::scaled(s)).i("ratLU", Probe::ratLUStatus(s));
   o.i("rep", (int)Probe::solver(s).rep());
   if(hasQ)
   {
      o.raw("q", projRational(s));
      // entries beyond the LP's dimension (left behind by an exact solve that ended in an error) are uninitialised memory: -1
      o.raw("rowTypes", jarr(Probe::nRowTypes(s), [&](int i) { return i < s.numRowsRational() ? std::to_string(Probe::rowType(s, i)) : std::string("-1"); }));
      o.raw("colTypes", jarr(Probe::nColTypes(s), [&](int i) { return i < s.numColsRational() ? std::to_string(Probe::colType(s, i)) : std::string("-1"); }));
      // (areLPsInSync() converts every floating-point number to a rational: GMP raises SIGFPE on an IEEE infinity, which a
      //  reader can leave behind for a number with thousands of digits; not called then)
      bool finite = true; const SPxLPBase<double>& rl = Probe::realLP(s);
      for(int j = 0; j < rl.nCols() && finite; j++) { finite = std::isfinite(rl.lower(j)) && std::isfinite(rl.upper(j)) && std::isfinite(rl.obj(j)); const SVectorBase<double>& cv = rl.colVector(j); for(int k = 0; k < cv.size(); k++) finite = finite && std::isfinite(cv.value(k)); }
      for(int i = 0; i < rl.nRows() && finite; i++) finite = std::isfinite(rl.lhs(i)) && std::isfinite(rl.rhs(i));
      o.b("inSync", (sync == SoPlex::SYNCMODE_AUTO && finite) ? s.areLPsInSync(true, true, true) : true);
   }
   else o.raw("q", emptyQ()).raw("rowTypes", "[]").raw("colTypes", "[]").b("inSync", true);
   return o.str();
}
} // namespace vt
#endif
