"""Per-property verification plans (what runs in the quick and the thorough tier)."""
import os, json, subprocess, time, hashlib, concurrent.futures as cf

def _drive(ctx, bdir, binary, jobs):
    """jobs: list of (argv-after-binary, outfile). Runs the real code in parallel; a driver may die (the trace
    then ends in a Crash line, which no specification action matches)."""
    def one(job):
        args, out = job
        try:
            env = dict(os.environ)                      # sanitizer failures must reach the SIGABRT handler (which logs a Crash event)
            env.setdefault('ASAN_OPTIONS', 'abort_on_error=1:detect_leaks=1:allocator_may_return_null=1')
            env.setdefault('UBSAN_OPTIONS', 'abort_on_error=1:halt_on_error=1:print_stacktrace=1')
            env.setdefault('TSAN_OPTIONS', 'halt_on_error=0:exitcode=66:history_size=4:report_thread_leaks=0:log_path=%s.tsan' % out)   # a report = exit code 66 of the execution, text in <trace>.tsan.<pid>
            with open(out + '.err', 'wb') as errf:      # sanitizer reports of the driver, for triage
                subprocess.run([os.path.join(bdir, binary)] + [str(a) for a in args] + [out], stdout=subprocess.DEVNULL,
                               stderr=errf, timeout=1800, env=env)
        except subprocess.TimeoutExpired:
            with open(out, 'a') as f:
                f.write('{"a":"Crash","what":"driver timeout","during":""}\n')
        return out
    with cf.ThreadPoolExecutor(max_workers=ctx['ncpu']) as ex:
        return list(ex.map(one, jobs))

def _samples(traces, n=2, maxlen=1500):
    out = []
    for t in traces[:1]:
        with open(t, 'r', errors='replace') as f:
            for i, l in enumerate(f):
                if i >= 40: break
                try:
                    ev = json.loads(l)
                except Exception:
                    continue
                if ev.get('a') in ('Reset', 'create'): continue
                ev.pop('st', None); ev.pop('others', None)
                s = json.dumps(ev)
                out.append(json.loads(s) if len(s) < maxlen else s[:maxlen])
                if len(out) >= n + 4: break
    return out

def _distinct(traces, keyfn):
    seen = set(); n = 0
    for t in traces:
        with open(t, 'r', errors='replace') as f:
            for l in f:
                n += 1
                try:
                    ev = json.loads(l)
                except Exception:
                    continue
                k = keyfn(ev)
                if k is not None:
                    seen.add(hashlib.sha1(json.dumps(k, sort_keys=True).encode()).hexdigest())
    return len(seen)

def _mc_all(ctx, mcs):
    res = []; viol = []; infra = []
    for m in mcs:
        r = ctx['run_mc'](m)
        ctx['log']('MC %-18s distinct=%d generated=%d %.0fs %s' % (m['name'], r['distinct'], r['states'], r['wall_s'],
                   ('rejected by TLC, as this negative control must be' if r['violated'] else 'NOT REJECTED') if m.get('expect_violation') else ('ok' if r['ok'] else 'FAILED')))
        if m.get('expect_violation'):
            # negative control: a design the specification must reject (otherwise the property is vacuous in the model)
            if not r['violated']:
                infra.append({'mc': m['name'], 'out': 'negative control was NOT rejected by TLC: ' + r['out'][-1500:]})
            r['ok'] = bool(r['violated'])
        elif not r['ok']:
            if r['violated']:
                p = os.path.join(ctx['verif'], 'evidence', 'replay', '%s-mc-%s.txt' % (ctx['prop'], m['name']))
                os.makedirs(os.path.dirname(p), exist_ok=True)
                open(p, 'w').write(r['out'])
                viol.append({'replay': p, 'action': 'MC ' + m['name'], 'guards': ['invariant of the specification violated'], 'line': 0, 'name': '', 'what': ''})
            else:
                infra.append({'mc': m['name'], 'out': r['out'][-2500:]})
        if r.get('never_taken'):
            infra.append({'mc': m['name'], 'out': 'vacuity: actions never taken: %s' % r['never_taken']})
        res.append({k: r[k] for k in ('name', 'states', 'distinct', 'wall_s', 'ok')})
    return res, viol, infra

def api_runner(spec_workloads, mcs=(), tv_spec='TV_API', binary='api_drv', variant='rel', rule='', assumptions=(), keyfn=None, tag='tv'):
    """spec_workloads: tier -> list of (workload, nexec, len, shards)"""
    def run(ctx):
        bdir = ctx['build'](variant, [binary])
        mcres, viol, infra = _mc_all(ctx, [m for m in mcs if ctx['tier'] in m.get('tiers', ('quick', 'thorough'))])
        jobs = []
        for (wl, nexec, ln, shards) in spec_workloads[ctx['tier']]:
            for sh in range(shards):
                out = os.path.join(ctx['rundir'], '%s-%s-%d.ndjson' % (tag, ''.join(ch if ch.isalnum() else '_' for ch in wl)[:48], sh))
                jobs.append(((wl, ctx['seed'] * 100003 + sh * 7919 + 1, nexec, ln), out))
        t0 = time.time()
        traces = _drive(ctx, bdir, binary, jobs)
        ctx['log']('drivers: %d trace files in %.0fs' % (len(traces), time.time() - t0))
        t0 = time.time()
        s = ctx['validate_traces'](tv_spec, traces, tag=tag)
        ctx['log']('TV: %d events validated in %.0fs, %d violations, %d known, %d infra' % (s['events'], time.time() - t0, len(s['violations']), len(s['known']), len(s['infra'])))
        nexe = ctx['count_executions'](traces)
        kf = keyfn or (lambda ev: (ev.get('a'), ev.get('name', ev.get('p', '')), ev.get('g', ev.get('r', {}).get('status') if isinstance(ev.get('r'), dict) else None)) if ev.get('a') not in ('Reset', 'create', 'destroy') else None)
        cov = {'states': sum(m['distinct'] for m in mcres) + s['events'], 'transitions': sum(m['states'] for m in mcres) + s['events'],
               'traces_validated_against_impl': nexe, 'samples': _samples(traces),
               'evaluations': s['events'], 'distinct_nontrivial': _distinct(traces, kf),
               'rule': rule or 'one evaluation = one public API call of the real library whose arguments, results and full projected state were checked by TLC against the specification; distinct = distinct (action, arguments/result) tuples',
               'mc_models': mcres, 'tv_events': s['events'], 'executions': nexe, 'known_findings_hit': len(s['known']), 'exhaustive': False}
        kn = sorted(set('%s: %s' % (k['id'], k['what']) for k in s['known']))
        return {'coverage': cov, 'violations': viol + s['violations'], 'known': kn, 'infra': infra + s['infra'],
                'assumptions': list(assumptions) + ['TLC 1.8 and spec/BigRat.java (BigInteger) are trusted; tolerances: viol <= tol*(1+2^-10) + 2^-40*(magnitude+1)',
                                                   'harness built with -O1 -DNDEBUG (the project default Release configuration) unless stated otherwise']}
    return run

PLANS = {}

PLANS['C06'] = {
    'level': 'model_checking', 'tv_spec': 'TV_API',
    'run': api_runner({'quick': [('mods', 40, 30, 12), ('mods2', 20, 30, 4)],
                       'thorough': [('mods', 120, 30, 16), ('mods2', 60, 30, 16)]}),
}

PLANS['C01'] = {
    'level': 'model_checking', 'tv_spec': 'TV_API',
    'run': api_runner({'quick': [('cert', 40, 3, 12), ('certbig', 10, 2, 4), ('scale', 8, 40, 4)],
                       'thorough': [('cert', 400, 4, 16), ('certbig', 100, 3, 16), ('certscaled', 100, 3, 8), ('scale', 40, 40, 8)]}),
}

PLANS['C02'] = {
    'level': 'model_checking', 'tv_spec': 'TV_API',
    'run': api_runner({'quick': [('cert2', 40, 3, 12), ('certbig2', 10, 2, 4)],
                       'thorough': [('cert2', 400, 4, 16), ('certbig2', 100, 3, 16), ('certscaled', 100, 3, 8)]}),
}
PLANS['C04'] = {
    'level': 'model_checking', 'tv_spec': 'TV_API',
    'run': api_runner({'quick': [('basis', 12, 30, 12), ('cert', 20, 2, 4)],
                       'thorough': [('basis', 120, 30, 16), ('cert', 200, 3, 16)]}),
}

PLANS['C07'] = {
    'level': 'model_checking', 'tv_spec': 'TV_API',
    'run': api_runner({'quick': [('sync', 25, 40, 16)],
                       'thorough': [('sync', 300, 40, 16)]}),
}

PLANS['C17'] = {
    'level': 'model_checking', 'tv_spec': 'TV_API',
    'run': api_runner({'quick': [('copy', 20, 25, 16)],
                       'thorough': [('copy', 250, 25, 16)]}),
}

PLANS['C16'] = {
    'level': 'model_checking', 'tv_spec': 'TV_API',
    'run': api_runner({'quick': [('limits', 12, 12, 10), ('limitsbig', 4, 20, 2), ('limitsq', 6, 8, 4)],
                       'thorough': [('limits', 150, 12, 16), ('limitsbig', 40, 30, 16), ('limitsq', 60, 10, 16)]},
                      mcs=[dict(name='SolveDriver', cfg='MC_SolveDriver.cfg', tla='MC_SolveDriver.tla', workers=8, timeout=600),
                           dict(name='SolveDriverOldDesign', cfg='MC_SolveDriverOld.cfg', tla='MC_SolveDriver.tla', workers=4, timeout=600, expect_violation=True)]),
}

PLANS['C09'] = {
    'level': 'model_checking', 'tv_spec': 'TV_API',
    'run': api_runner({'quick': [('scale', 16, 40, 12), ('scalerbare', 4, 60, 4), ('mods2', 10, 30, 4)],
                       'thorough': [('scale', 200, 40, 16), ('scalerbare', 30, 100, 16), ('certscaled', 100, 3, 8)]}),
}

PLANS['C05'] = {
    'level': 'model_checking', 'tv_spec': 'TV_API',
    'run': api_runner({'quick': [('binv', 12, 10, 16)],
                       'thorough': [('binv', 150, 12, 16)]}),
}

PLANS['C03'] = {
    'level': 'model_checking', 'tv_spec': 'TV_API',
    'run': api_runner({'quick': [('exact', 16, 3, 12), ('exactbig', 4, 2, 4)],
                       'thorough': [('exact', 200, 4, 16), ('exactbig', 40, 3, 16)]}),
}

PLANS['C20'] = {
    'level': 'model_checking', 'tv_spec': 'TV_API',
    'run': api_runner({'quick': [('cint', 20, 40, 16)], 'thorough': [('cint', 250, 60, 16)]},
                      rule='one evaluation = one C interface call (paired with the C++ call on a mirror object): state of the C object, C results, argument conversion and array guard words checked by TLC',
                      keyfn=lambda ev: (ev.get('a'), ev.get('cname', ev.get('name', '')), json.dumps(ev.get('cargs', ev.get('g')))[:300]) if ev.get('a') in ('ccall', 'mod') else None),
}

PLANS['C08'] = {
    'level': 'model_checking', 'tv_spec': 'TV_Presolve',
    'run': api_runner({'quick': [('presolve', 40, 2, 16)], 'thorough': [('presolve', 500, 3, 16)]}, tv_spec='TV_Presolve',
                      rule='one evaluation = one simplify() or one unsimplify() of the stand-alone SPxMainSM on a witnessed LP: verdict truth, and for every optimal vertex of the reduced LP (enumerated exactly, re-verified by TLC) the postsolved certificate, objective value and basis checked exactly',
                      keyfn=lambda ev: (ev.get('a'), ev.get('result'), json.dumps(ev.get('red', ev.get('inq')))[:400]) if ev.get('a') in ('simplify', 'unsimp') else None),
}

PLANS['C13'] = {
    'level': 'exploration', 'tv_spec': 'TV_API',
    'run': api_runner({'quick': [('readers', 25, 6, 16)], 'thorough': [('readers', 300, 8, 16)]}, variant='asanub',
                      rule='one evaluation = one reader call on a (mutated) file or one call of the post-read sequence, executed in an AddressSanitizer build and validated by TLC (self-consistent state after every read, exact LP for unmutated seed files, correct solves afterwards)',
                      keyfn=lambda ev: (ev.get('a'), ev.get('mutation'), ev.get('ext'), ev.get('ret'), ev.get('bytes')) if ev.get('a') in ('readFile', 'readBasisFuzz') else None,
                      assumptions=['driver built with -fsanitize=address,undefined (variant asanub) and a LeakSanitizer check at the end of every execution; a read that does not return within 10 s is reported as a hang']),
}

def params_runner(sizes, wl='rnd', variant='rel', tag='tv'):
    def run(ctx):
        bdir = ctx['build'](variant, ['params_drv'])
        mcres, viol, infra = _mc_all(ctx, [dict(name='Params', cfg='MC_Params.cfg', tla='MC_Params.tla', workers=ctx['ncpu'], timeout=900, coverage=True)] if os.path.exists(os.path.join(ctx['verif'], 'spec', 'MC_Params.tla')) else [])
        nexec, ln, shards = sizes[ctx['tier']]
        jobs = [((wl, ctx['seed'] * 100003 + sh * 7919 + 1, nexec, ln), os.path.join(ctx['rundir'], 'params-%s-%d.ndjson' % (wl, sh))) for sh in range(shards)]
        traces = _drive(ctx, bdir, 'params_drv', jobs)
        s = ctx['validate_traces']('TV_Params', traces, tag=tag)
        ctx['log']('TV: %d events validated, %d violations, %d known, %d infra' % (s['events'], len(s['violations']), len(s['known']), len(s['infra'])))
        nexe = ctx['count_executions'](traces)
        cov = {'states': sum(m['distinct'] for m in mcres) + s['events'], 'transitions': sum(m['states'] for m in mcres) + s['events'],
               'traces_validated_against_impl': nexe, 'samples': _samples(traces), 'evaluations': s['events'],
               'distinct_nontrivial': _distinct(traces, lambda ev: (ev.get('a'), ev.get('t'), ev.get('name'), ev.get('cls'), ev.get('ret'), ev.get('wellFormed')) if ev.get('a') not in ('Reset', 'create') else None),
               'rule': 'one evaluation = one parameter operation on a real SoPlex object validated by TLC against Params.tla; distinct = distinct (operation, type, parameter, value class, outcome)',
               'mc_models': mcres, 'tv_events': s['events'], 'executions': nexe, 'known_findings_hit': len(s['known']), 'exhaustive': False}
        kn = sorted(set('%s: %s' % (k['id'], k['what']) for k in s['known']))
        return {'coverage': cov, 'violations': viol + s['violations'], 'known': kn, 'infra': infra + s['infra'],
                'assumptions': ['parameter table spec/params_table.json transcribed from the pinned tree', 'INFTY and VERBOSITY are not varied']}
    return run
PLANS['C15'] = {'level': 'model_checking', 'tv_spec': 'TV_Params', 'run': params_runner({'quick': (12, 60, 12), 'thorough': (120, 80, 16)})}

PLANS['C14'] = {
    'level': 'model_checking', 'tv_spec': 'TV_API',
    'run': api_runner({'quick': [('basfile', 16, 8, 12)], 'thorough': [('basfile', 200, 10, 16)]},
                      mcs=[dict(name='BasisFile', cfg='MC_BasisFile.cfg', tla='MC_BasisFile.tla', timeout=900)]),
}

def files_runner(sizes):
    def run(ctx):
        bdir = ctx['build']('rel', ['api_drv'])
        lits = os.path.join(ctx['rundir'], 'literals.ndjson')
        env = dict(os.environ); env['LITS'] = lits
        r = subprocess.run([os.path.join(ctx['verif'], 'bin', 'tlcrun'), 'genlits' + os.environ.get('VERIF_RUNTAG', ''), '1', '600', 'GEN_Literals.cfg', 'GEN_Literals.tla'], stdout=subprocess.PIPE, stderr=subprocess.STDOUT, text=True, env=env)
        import re
        mm = re.search(r'<<"LITERALS", (\d+)>>', r.stdout)
        if not mm or not os.path.exists(lits):
            raise ctx['Infra']('GEN_Literals failed: ' + r.stdout[-1500:])
        nlits = int(mm.group(1))
        ctx['log']('GEN: TLC enumerated %d literals of the grammar' % nlits)
        os.environ['VERIF_LITS'] = lits
        shards = ctx['ncpu']
        traces = _drive(ctx, bdir, 'api_drv', [(('lits', 1, shards, 1), os.path.join(ctx['rundir'], 'lits.ndjson'))])
        # split the literal trace into one file per 200 events so that TLC validates them in parallel
        parts = []
        lines = open(traces[0]).read().splitlines()
        ev = [l for l in lines if l.startswith('{"a":"literal"') or l.startswith('{"a":"Crash"')]
        for k in range(0, len(ev), 150):
            pth = os.path.join(ctx['rundir'], 'litpart-%d.ndjson' % (k // 150))
            open(pth, 'w').write('{"a":"Reset"}\n' + '\n'.join(ev[k:k + 150]) + '\n'); parts.append(pth)
        s1 = ctx['validate_traces']('TV_Literals', parts, tag='lit')
        ctx['log']('TV literals: %d events, %d violations, %d known' % (s1['events'], len(s1['violations']), len(s1['known'])))
        wl = sizes[ctx['tier']]
        jobs = [((w, ctx['seed'] * 100003 + sh * 7919 + 1, n, ln), os.path.join(ctx['rundir'], '%s-%d.ndjson' % (w, sh))) for (w, n, ln, shs) in wl for sh in range(shs)]
        tr2 = _drive(ctx, bdir, 'api_drv', jobs)
        s2 = ctx['validate_traces']('TV_API', tr2, tag='rt')
        ctx['log']('TV round trips: %d events, %d violations, %d known' % (s2['events'], len(s2['violations']), len(s2['known'])))
        nexe = ctx['count_executions'](tr2)
        cov = {'states': s1['events'] + s2['events'] + nlits, 'transitions': s1['events'] + s2['events'] + nlits, 'traces_validated_against_impl': nexe + len(parts),
               'samples': _samples(parts, 3) + _samples(tr2, 2), 'evaluations': s1['events'] + s2['events'], 'distinct_nontrivial': nlits + _distinct(tr2, lambda e: (e.get('a'), e.get('fmt'), e.get('mode'), json.dumps(e.get('st', {}).get('rows')) if e.get('a') == 'fileRoundTrip' else None) if e.get('a') == 'fileRoundTrip' else None),
               'rule': 'literals: every literal of the grammar enumerated by TLC (GEN_Literals), read by ratFromString and by the LP and MPS readers in both read modes; round trips: one evaluation = one API call in a write/read-back history',
               'literals_enumerated': nlits, 'exhaustive': True, 'known_findings_hit': len(s1['known']) + len(s2['known'])}
        kn = sorted(set('%s: %s' % (k['id'], k['what']) for k in s1['known'] + s2['known']))
        return {'coverage': cov, 'violations': s1['violations'] + s2['violations'], 'known': kn, 'infra': s1['infra'] + s2['infra'],
                'assumptions': ['the literal grammar is enumerated over small digit alphabets (Literals.tla)', 'floating-point MPS values compare to 15 significant digits']}
    return run
PLANS['C12'] = {'level': 'model_checking', 'tv_spec': 'TV_API', 'run': files_runner({'quick': [('files', 16, 6, 12)], 'thorough': [('files', 200, 8, 16)]})}

def lu_runner(mode, sizes, env_extra=None, tag='tv'):
    def run(ctx):
        bdir = ctx['build']('rel', ['lu_drv'])
        mcres, viol, infra = _mc_all(ctx, [dict(name='LUProtocol', cfg='MC_LUFactor.cfg', tla='MC_LUFactor.tla', workers=ctx['ncpu'], timeout=600)] if os.path.exists(os.path.join(ctx['verif'], 'spec', 'MC_LUFactor.tla')) else [])
        nexec, ln, shards = sizes[ctx['tier']]
        for k, v in (env_extra or {}).get(ctx['tier'], {}).items(): os.environ[k] = v
        jobs = [((mode, ctx['seed'] * 100003 + sh * 7919 + 1, nexec, ln), os.path.join(ctx['rundir'], 'lu-%d.ndjson' % sh)) for sh in range(shards)]
        if mode == 'real':   # long update sequences without refactorization (fills the row/column files of U)
            jobs += [(('stress', ctx['seed'] * 100003 + sh * 7919 + 5, max(8, nexec // 2), ln), os.path.join(ctx['rundir'], 'lustress-%d.ndjson' % sh)) for sh in range(shards)]
        traces = _drive(ctx, bdir, 'lu_drv', jobs)
        s = ctx['validate_traces']('TV_LU', traces, tvenv={'LUMODE': mode}, tag=tag)
        ctx['log']('TV: %d events validated, %d violations, %d known, %d infra' % (s['events'], len(s['violations']), len(s['known']), len(s['infra'])))
        nexe = ctx['count_executions'](traces)
        cov = {'states': sum(m['distinct'] for m in mcres) + s['events'], 'transitions': sum(m['states'] for m in mcres) + s['events'],
               'traces_validated_against_impl': nexe, 'samples': _samples(traces), 'evaluations': s['events'],
               'distinct_nontrivial': _distinct(traces, lambda ev: (ev.get('a'), ev.get('cols'), ev.get('b'), ev.get('col'), ev.get('variant')) if ev.get('a') not in ('Reset',) else None),
               'rule': 'one evaluation = one load / solve / column replacement of the real factorization object checked exactly by TLC against LUFactor.tla; distinct = distinct (operation, matrix / right-hand side)',
               'mc_models': mcres, 'tv_events': s['events'], 'executions': nexe, 'known_findings_hit': len(s['known']), 'exhaustive': False}
        kn = sorted(set('%s: %s' % (k['id'], k['what']) for k in s['known']))
        return {'coverage': cov, 'violations': viol + s['violations'], 'known': kn, 'infra': infra + s['infra'],
                'assumptions': ['nonsingular test matrices are permuted strictly diagonally dominant (well conditioned by construction); singular ones are exactly singular',
                                'residual bound 2^-26 (|M|max |x|_1 + |b|inf + 1) for the floating-point factorization, exact equality for the rational one']}
    return run

def cont_runner(sizes):
    """C19: containers and vectors: random histories per family + TLC-generated scripts (bounded exhaustive) for the keyed sets"""
    def run(ctx):
        bdir = ctx['build']('rel', ['cont_drv'])
        mcs = []
        if os.path.exists(os.path.join(ctx['verif'], 'spec', 'MC_Containers.tla')):
            mcs.append(dict(name='Containers', cfg='MC_Containers.cfg', tla='MC_Containers.tla', workers=ctx['ncpu'], timeout=900, coverage=True))
        mcres, viol, infra = _mc_all(ctx, mcs)
        jobs = []
        for (fam, nexec, ln, shards) in sizes[ctx['tier']]:
            for sh in range(shards):
                jobs.append(((fam, ctx['seed'] * 100003 + sh * 7919 + 1, nexec, ln), os.path.join(ctx['rundir'], 'cont-%s-%d.ndjson' % (fam, sh))))
        traces = _drive(ctx, bdir, 'cont_drv', jobs)
        nscripts = 0
        gen = os.path.join(ctx['verif'], 'spec', 'GEN_Containers.tla')
        if os.path.exists(gen):
            scripts = os.path.join(ctx['rundir'], 'scripts.ndjson')
            env = dict(os.environ); env['SCRIPTS'] = scripts; env['GENLEN'] = str(sizes.get('genlen', {}).get(ctx['tier'], 3))
            r = subprocess.run([os.path.join(ctx['verif'], 'bin', 'tlcrun'), 'gencont' + os.environ.get('VERIF_RUNTAG', ''), '1', '900', 'GEN_Containers.cfg', 'GEN_Containers.tla'], stdout=subprocess.PIPE, stderr=subprocess.STDOUT, text=True, env=env)
            import re
            mm = re.search(r'<<"SCRIPTS", (\d+)>>', r.stdout)
            if not mm or not os.path.exists(scripts):
                raise ctx['Infra']('GEN_Containers failed: ' + r.stdout[-1500:])
            nscripts = int(mm.group(1))
            ctx['log']('GEN: TLC enumerated %d operation scripts' % nscripts)
            os.environ['VERIF_SCRIPTS'] = scripts
            sj = [(('script', sh, ctx['ncpu'], 0), os.path.join(ctx['rundir'], 'cont-script-%d.ndjson' % sh)) for sh in range(ctx['ncpu'])]
            traces += _drive(ctx, bdir, 'cont_drv', sj)
        s = ctx['validate_traces']('TV_Containers', traces)
        ctx['log']('TV: %d events validated, %d violations, %d known, %d infra' % (s['events'], len(s['violations']), len(s['known']), len(s['infra'])))
        nexe = ctx['count_executions'](traces)
        cov = {'states': sum(m['distinct'] for m in mcres) + s['events'], 'transitions': sum(m['states'] for m in mcres) + s['events'],
               'traces_validated_against_impl': nexe, 'samples': _samples(traces), 'evaluations': s['events'],
               'distinct_nontrivial': _distinct(traces, lambda ev: (ev.get('a'), ev.get('op'), ev.get('types'), ev.get('how'), ev.get('what'), json.dumps(ev.get('st'))[:200]) if ev.get('a') not in ('Reset',) else None),
               'rule': 'one evaluation = one public container / vector call on a real object whose complete abstract value and lookup answers were checked by TLC against Containers.tla; scripts = every operation sequence of the bounded model enumerated by TLC and replayed on the real keyed sets',
               'mc_models': mcres, 'tv_events': s['events'], 'executions': nexe, 'scripts_enumerated': nscripts, 'known_findings_hit': len(s['known']), 'exhaustive': False}
        kn = sorted(set('%s: %s' % (k['id'], k['what']) for k in s['known']))
        return {'coverage': cov, 'violations': viol + s['violations'], 'known': kn, 'infra': infra + s['infra'],
                'assumptions': ['vector data are small integers, dyadic fractions (double) or small fractions (Rational): dense reference arithmetic is exact', 'callers respect the documented capacity preconditions (DataSet/ClassSet/IdxSet do not grow by themselves)']}
    return run
PLANS['C19'] = {'level': 'model_checking', 'tv_spec': 'TV_Containers',
                'run': cont_runner({'quick': [('keyed', 40, 40, 8), ('seq', 20, 40, 2), ('bag', 20, 40, 1), ('list', 20, 40, 2), ('map', 20, 40, 1), ('vec', 10, 80, 2)],
                                    'thorough': [('keyed', 300, 60, 16), ('seq', 100, 60, 8), ('bag', 100, 60, 4), ('list', 100, 60, 8), ('map', 100, 60, 4), ('vec', 50, 200, 8)],
                                    'genlen': {'quick': 3, 'thorough': 4}})}

def combo_runner(*runs):
    """several runners for one property: coverage numbers add up, lists are concatenated"""
    def run(ctx):
        out = None
        for r in runs:
            x = r(ctx)
            if out is None:
                out = x; continue
            for k, v in x['coverage'].items():
                o = out['coverage'].get(k)
                if isinstance(v, bool): out['coverage'][k] = bool(o) and v
                elif isinstance(v, (int, float)) and isinstance(o, (int, float)): out['coverage'][k] = o + v
                elif isinstance(v, list) and isinstance(o, list): out['coverage'][k] = o + v
                elif isinstance(v, str) and isinstance(o, str) and v != o: out['coverage'][k] = o + ' | ' + v
                elif o is None: out['coverage'][k] = v
            for k in ('violations', 'known', 'infra'): out[k] = out[k] + x[k]
            out['assumptions'] = out['assumptions'] + [a for a in x['assumptions'] if a not in out['assumptions']]
        return out
    return run
PLANS['C10'] = {'level': 'model_checking', 'tv_spec': 'TV_LU', 'tv_env': {'LUMODE': 'real'}, 'run': lu_runner('real', {'quick': (30, 40, 16), 'thorough': (300, 60, 16)}, {'thorough': {'VERIF_LU_MAXDIM': '40'}})}
PLANS['C11'] = {'level': 'model_checking', 'tv_spec': 'TV_LU', 'tv_env': {'LUMODE': 'rational'},
                'run': combo_runner(lu_runner('rational', {'quick': (20, 8, 16), 'thorough': (200, 10, 16)}, {'thorough': {'VERIF_LU_MAXDIM': '20', 'VERIF_LU_BITS': '200'}}, tag='lu'),
                                    api_runner({'quick': [('binvq', 12, 30, 16)], 'thorough': [('binvq', 150, 40, 16)]}, tag='binvq'))}

# C13 covers four readers: LP / MPS / basis files (api_drv 'readers') and settings files (params_drv 'fuzz'), both in the sanitizer build
PLANS['C13']['run'] = combo_runner(PLANS['C13']['run'],
                                   params_runner({'quick': (12, 60, 8), 'thorough': (120, 80, 16)}, wl='fuzz', variant='asanub', tag='set'))

# C18: K threads, each with its own objects / seed / trace, run concurrently (under ThreadSanitizer) and then alone;
# every per-thread trace is validated against TV_API and closed by the "alone" comparison (TVAlone)
_W16 = 'threads:16:mods@30+cert@3+exact@3+files@6+basis@30+sync@40+cert2@3+scale@40+limits@12+binv@10+cint@40+readers@6+basfile@8+certbig@2+exactbig@2+limits@12'
_W8E = 'threads:8:exact@3+exactbig@2+exact@3+limitsq@8+exact@3+exactbig@2+cert@3+exact@3'
_W4F = 'threads:4:files@6+readers@6+files@6+mods@30'
_W2M = 'threads:2:mods@30+mods@30'
_W3S = 'threads:3:scale@40+cert@3+basis@30'
_THREAD_MCS = [dict(name='Threads', cfg='MC_Threads.cfg', tla='Threads.tla', workers=8, timeout=600, coverage=True),
               dict(name='ThreadsOldDesign', cfg='MC_ThreadsOld.cfg', tla='Threads.tla', workers=4, timeout=600, expect_violation=True)]
PLANS['C18'] = {'level': 'model_checking', 'tv_spec': 'TV_API',
                'run': combo_runner(
                    api_runner({'quick': [(_W16, 2, 0, 6), (_W8E, 2, 0, 3), (_W4F, 3, 0, 3), (_W2M, 4, 0, 2), (_W3S, 3, 0, 2)],
                                'thorough': [(_W16, 10, 0, 16), (_W8E, 10, 0, 8), (_W4F, 20, 0, 8), (_W2M, 20, 0, 8), (_W3S, 20, 0, 8)]},
                               mcs=_THREAD_MCS, variant='tsan', tag='tsan',
                               assumptions=['ThreadSanitizer (gcc 12 libtsan) sees the code of the library and the harness, not the inside of libgmp/libmpfr/libz',
                                            'schedules: those the kernel produces for 2..16 threads released together by a barrier on 16 cores (not all interleavings)',
                                            'the time limit of the exact solves is out of reach in thread mode (the default timer measures process CPU time)']),
                    api_runner({'quick': [(_W16, 3, 0, 8), (_W8E, 4, 0, 4), (_W2M, 10, 0, 4)],
                                'thorough': [(_W16, 40, 0, 16), (_W8E, 40, 0, 16), (_W4F, 40, 0, 8), (_W2M, 60, 0, 8)]}, variant='rel', tag='rel'))}
