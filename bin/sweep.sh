#!/bin/bash
# bin/sweep.sh <seed>... : run every registered quick check with other seeds (false-alarm hunting); summary on stdout
cd "$(dirname "$0")/.."
bin/setup.sh >/dev/null 2>&1
for seed in "$@"; do
  for p in $(python3 -c "import json; print(' '.join(c['property_id'] for c in json.load(open('MANIFEST.json'))['checks']))"); do
    VERIF_SEED=$seed VERIF_RUNTAG=-sw$seed VERIF_EVIDENCE_DIR=$PWD/.cache/sweep-ev-$seed VERIF_JOBS=${VERIF_JOBS:-16} timeout 1500 bin/check $p quick > .cache/sweep-$seed-$p.log 2>&1
    rc=$?
    echo "seed=$seed $p exit=$rc $(grep '^violated' .cache/sweep-$seed-$p.log | sed 's/"line": [0-9]*, //' | sort | uniq -c | sort -rn | head -4 | tr '\n' ';' | cut -c1-400)"
  done
done
