#!/bin/bash
# Runs the repository's pinned test suite with the verification guard OFF (plain cmake build of /repo).
set -e
cd /repo
cmake -G Ninja -B _build -DCMAKE_BUILD_TYPE=RelWithDebInfo >/dev/null
cmake --build _build >/dev/null
ctest --test-dir _build -j8 --timeout 900
