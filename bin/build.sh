#!/bin/bash
# Build harness binaries from /repo's CURRENT working tree with the verification hooks enabled.
#   bin/build.sh <variant> <target>...      prints the build directory on the last line
# variant: pinned (-O1, asserts on, -DSOPLEX_VERIF) | asan | tsan
# Objects are cached under /verif/.cache/build/<variant>-<hash of /repo/src + harness + flags>.
set -euo pipefail
VERIF=$(cd "$(dirname "$0")/.." && pwd)
REPO=${VERIF_REPO:-/repo}
variant=${1:-pinned}; shift || true
targets=("$@")
case "$variant" in
  pinned) XF="-O1 -g0" ;;
  asan)   XF="-O1 -g1 -DNDEBUG -fsanitize=address -fno-omit-frame-pointer" ;;
  asanub) XF="-O1 -g1 -DNDEBUG -fsanitize=address,undefined -fno-sanitize=enum -fno-sanitize-recover=undefined -fno-omit-frame-pointer" ;;
  tsan)   XF="-O1 -g1 -DNDEBUG -fsanitize=thread" ;;
  rel)    XF="-O1 -g0 -DNDEBUG" ;;
  relg)   XF="-O1 -g1 -DNDEBUG" ;;
  *) echo "unknown variant $variant" >&2; exit 2 ;;
esac
CXXFLAGS="-std=gnu++14 -ffp-contract=off -w -DSOPLEX_VERIF $XF"
hash=$( { echo "$CXXFLAGS"; cd "$REPO/src" && find . -type f \( -name '*.h' -o -name '*.hpp' -o -name '*.cpp' -o -name '*.in' \) -print0 | sort -z | xargs -0 sha1sum; cd "$VERIF/harness" && find . -type f -print0 | sort -z | xargs -0 sha1sum; } | sha1sum | cut -c1-16)
tag=$(echo "$REPO" | sha1sum | cut -c1-6)
B="$VERIF/.cache/build/$variant-$tag-$hash"
mkdir -p "$B/include/soplex" "$B/obj"
# remove stale build dirs of this variant
for d in "$VERIF"/.cache/build/$variant-$tag-*; do [ "$d" != "$B" ] && [ -d "$d" ] && rm -rf "$d"; done
cat > "$B/include/soplex/config.h" <<'EOC'
#ifndef __SPXCONFIG_H__
#define __SPXCONFIG_H__
#define SOPLEX_BUILD_TYPE "RelWithDebInfo"
#define SOPLEX_VERSION_MAJOR 8
#define SOPLEX_VERSION_MINOR 0
#define SOPLEX_VERSION_PATCH 0
#define SOPLEX_WITH_BOOST
#define SOPLEX_WITH_GMP
#define SOPLEX_WITH_MPFR
#define SOPLEX_WITH_ZLIB
#endif
EOC
[ -f "$B/include/soplex/git_hash.cpp" ] || echo '#define SPX_GITHASH "verif"' > "$B/include/soplex/git_hash.cpp"
make -s -j"${VERIF_JOBS:-16}" -f "$VERIF/harness/Makefile" B="$B" REPO="$REPO" H="$VERIF/harness" CXXFLAGS="$CXXFLAGS" "${targets[@]/#/$B/}" >&2
echo "$B"
