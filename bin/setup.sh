#!/bin/bash
# setup after a fresh restore (offline): compile the TLC operator override and pre-build the harness binaries
set -e
cd "$(dirname "$0")/.."
javac -cp /opt/veriftools/tla/tla2tools.jar -d spec spec/BigRat.java
bin/build.sh rel $(cat harness/TARGETS_rel) >/dev/null
echo setup done
