---- MODULE TV_Presolve_TTrace_1791155437 ----
EXTENDS Sequences, TLCExt, Toolbox, Naturals, TLC, TV_Presolve

_expression ==
    LET TV_Presolve_TEExpression == INSTANCE TV_Presolve_TEExpression
    IN TV_Presolve_TEExpression!expression
----

_trace ==
    LET TV_Presolve_TETrace == INSTANCE TV_Presolve_TETrace
    IN TV_Presolve_TETrace!trace
----

_inv ==
    ~(
        TLCGet("level") = Len(_TETrace)
        /\
        ps = ([phase |-> "simplified", lp |-> [rows |-> <<<<<<1, "-1">>, <<2, "1">>>>, <<<<1, "-1">>, <<2, "-2">>>>, <<<<2, "-1">>, <<3, "1">>>>>>, lhs |-> <<"3", "-inf", "0">>, rhs |-> <<"3", "3", "0">>, lo |-> <<"-inf", "-3", "-inf", "-inf">>, up |-> <<"-1", "inf", "inf", "inf">>, obj |-> <<"0", "2", "-3", "2">>, sense |-> -1, offset |-> "0"], kind |-> "OPT", optval |-> "-6"])
        /\
        l = (4)
    )
----

_init ==
    /\ l = _TETrace[1].l
    /\ ps = _TETrace[1].ps
----

_next ==
    /\ \E i,j \in DOMAIN _TETrace:
        /\ \/ /\ j = i + 1
              /\ i = TLCGet("level")
        /\ l  = _TETrace[i].l
        /\ l' = _TETrace[j].l
        /\ ps  = _TETrace[i].ps
        /\ ps' = _TETrace[j].ps

\* Uncomment the ASSUME below to write the states of the error trace
\* to the given file in Json format. Note that you can pass any tuple
\* to `JsonSerialize`. For example, a sub-sequence of _TETrace.
    \* ASSUME
    \*     LET J == INSTANCE Json
    \*         IN J!JsonSerialize("TV_Presolve_TTrace_1791155437.json", _TETrace)

=============================================================================

 Note that you can extract this module `TV_Presolve_TEExpression`
  to a dedicated file to reuse `expression` (the module in the 
  dedicated `TV_Presolve_TEExpression.tla` file takes precedence 
  over the module `TV_Presolve_TEExpression` below).

---- MODULE TV_Presolve_TEExpression ----
EXTENDS Sequences, TLCExt, Toolbox, Naturals, TLC, TV_Presolve

expression == 
    [
        \* To hide variables of the `TV_Presolve` spec from the error trace,
        \* remove the variables below.  The trace will be written in the order
        \* of the fields of this record.
        l |-> l
        ,ps |-> ps
        
        \* Put additional constant-, state-, and action-level expressions here:
        \* ,_stateNumber |-> _TEPosition
        \* ,_lUnchanged |-> l = l'
        
        \* Format the `l` variable as Json value.
        \* ,_lJson |->
        \*     LET J == INSTANCE Json
        \*     IN J!ToJson(l)
        
        \* Lastly, you may build expressions over arbitrary sets of states by
        \* leveraging the _TETrace operator.  For example, this is how to
        \* count the number of times a spec variable changed up to the current
        \* state in the trace.
        \* ,_lModCount |->
        \*     LET F[s \in DOMAIN _TETrace] ==
        \*         IF s = 1 THEN 0
        \*         ELSE IF _TETrace[s].l # _TETrace[s-1].l
        \*             THEN 1 + F[s-1] ELSE F[s-1]
        \*     IN F[_TEPosition - 1]
    ]

=============================================================================



Parsing and semantic processing can take forever if the trace below is long.
 In this case, it is advised to uncomment the module below to deserialize the
 trace from a generated binary file.

\*
\*---- MODULE TV_Presolve_TETrace ----
\*EXTENDS IOUtils, TLC, TV_Presolve
\*
\*trace == IODeserialize("TV_Presolve_TTrace_1791155437.bin", TRUE)
\*
\*=============================================================================
\*

---- MODULE TV_Presolve_TETrace ----
EXTENDS TLC, TV_Presolve

trace == 
    <<
    ([ps |-> [phase |-> "none"],l |-> 1]),
    ([ps |-> [phase |-> "none"],l |-> 2]),
    ([ps |-> [phase |-> "loaded", lp |-> [rows |-> <<<<<<1, "-1">>, <<2, "1">>>>, <<<<1, "-1">>, <<2, "-2">>>>, <<<<2, "-1">>, <<3, "1">>>>>>, lhs |-> <<"3", "-inf", "0">>, rhs |-> <<"3", "3", "0">>, lo |-> <<"-inf", "-3", "-inf", "-inf">>, up |-> <<"-1", "inf", "inf", "inf">>, obj |-> <<"0", "2", "-3", "2">>, sense |-> -1, offset |-> "0"], kind |-> "OPT", optval |-> "-6"],l |-> 3]),
    ([ps |-> [phase |-> "simplified", lp |-> [rows |-> <<<<<<1, "-1">>, <<2, "1">>>>, <<<<1, "-1">>, <<2, "-2">>>>, <<<<2, "-1">>, <<3, "1">>>>>>, lhs |-> <<"3", "-inf", "0">>, rhs |-> <<"3", "3", "0">>, lo |-> <<"-inf", "-3", "-inf", "-inf">>, up |-> <<"-1", "inf", "inf", "inf">>, obj |-> <<"0", "2", "-3", "2">>, sense |-> -1, offset |-> "0"], kind |-> "OPT", optval |-> "-6"],l |-> 4])
    >>
----


=============================================================================

---- CONFIG TV_Presolve_TTrace_1791155437 ----

INVARIANT
    _inv

CHECK_DEADLOCK
    \* CHECK_DEADLOCK off because of PROPERTY or INVARIANT above.
    FALSE

INIT
    _init

NEXT
    _next

CONSTANT
    _TETrace <- _trace

ALIAS
    _expression
=============================================================================
\* Generated on Sun Oct 04 23:10:43 UTC 2026