------------------------------ MODULE TV_Params ------------------------------
(* Trace validation of parameter histories recorded by harness/params_drv.cpp against Params (C15). *)
EXTENDS Params, IOUtils, TLC

Tr == ndJsonDeserialize(IOEnv.TRACE)
VARIABLES val, lp, l
vars == <<val, lp, l>>
Ev == Tr[l]
Fail(name, ok) == IF ok THEN {} ELSE {name}

ValsOf(v) == [b |-> v.b, i |-> v.i, r |-> [k \in 1..Len(v.r) |-> NormInf(v.r[k])]]
\* what a reader of the reported values must see
ValsFails(v, rep) == Fail("BoolValues", rep.b = v.b) \cup Fail("IntValues", rep.i = v.i) \cup Fail("RealValues", rep.r = v.r)
\* real parameters survive save/load to the printed precision (fixed notation, 16 decimals)
RealClose(a, b) == \/ a = b
                   \/ /\ BRIsFinite(a) /\ BRIsFinite(b)
                      /\ BRLeq(BRAbs(BRSub(a, b)), BRAdd("1/1000000000000000", BRMul(BRAbs(a), "1/1000000000000000")))
SavedFails(v, rep) == Fail("Reload:Bool", rep.b = v.b) \cup Fail("Reload:Int", rep.i = v.i)
                      \cup Fail("Reload:Real", Len(rep.r) = Len(v.r) /\ \A k \in 1..Len(v.r) : RealClose(v.r[k], NormInf(rep.r[k])))

\* only objective sense and offset may touch the stored LP
LPFails == Fail("LPUntouched", Ev.lp = lp)
SenseFails(v) == LET k == CHOOSE k \in 1..NI : Table.int[k].name = "objsense" IN Fail("SenseUsed", ToString(Ev.sense) = v.i[k])

Step(fails, newval) == IF fails = {} THEN val' = newval /\ lp' = lp /\ l' = l + 1
                       ELSE PrintT(<<"GUARDFAIL", l, Ev.a, fails>>) /\ FALSE

TVReset == Ev.a = "Reset" /\ val' = Defaults /\ lp' = "" /\ l' = l + 1
TVCreate == /\ Ev.a = "create"
            /\ LET verb == CHOOSE k \in 1..NI : Table.int[k].name = "verbosity"
                   v == [Defaults EXCEPT !.i[verb] = "0"] IN
               IF ValsFails(v, ValsOf(Ev.vals)) = {} THEN val' = v /\ lp' = Ev.lp /\ l' = l + 1
               ELSE PrintT(<<"GUARDFAIL", l, Ev.a, ValsFails(v, ValsOf(Ev.vals))>>) /\ FALSE

\* a typed set (also the meaning of a well-formed "type:name=value" string)
SetOutcomeFails(t, k, v, bv, ret) ==
   LET accept == CASE t = "bool" -> TRUE
                   [] t = "int"  -> InRangeInt(k, v)
                   [] t = "real" -> InRangeReal(k, v)
       mayRefuse == CASE t = "bool" -> PapiloBool(k) [] t = "int" -> MayRefuseInt(k, v) [] t = "real" -> MayRefuseReal(k, v)
       new == CASE t = "bool" -> SetBool(val, k, bv) [] t = "int" -> SetInt(val, k, v) [] t = "real" -> SetReal(val, k, v)
       same == CASE t = "bool" -> val.b[k] = bv [] t = "int" -> val.i[k] = v [] t = "real" -> val.r[k] = NormInf(v)
   IN IF ret THEN <<Fail("AcceptedOutOfRange", accept \/ same), new>>
      ELSE <<Fail("RejectedInRange", ~accept \/ mayRefuse), val>>

TVSet == /\ Ev.a = "set"
         /\ LET k == Ev.id + 1  o == SetOutcomeFails(Ev.t, k, Ev.v, Ev.bv, Ev.ret) IN
            Step(o[1] \cup ValsFails(o[2], ValsOf(Ev.vals)) \cup LPFails \cup SenseFails(o[2]), o[2])
TVParse == /\ Ev.a = "parse"
           /\ LET k == Ev.id + 1
                  o == IF Ev.wellFormed THEN SetOutcomeFails(Ev.t, k, Ev.v, Ev.v = "1", Ev.ret)
                       ELSE <<Fail("MalformedAccepted", ~Ev.ret), val>> IN
              Step(o[1] \cup ValsFails(o[2], ValsOf(Ev.vals)) \cup LPFails \cup SenseFails(o[2]), o[2])
TVSaveLoad == /\ Ev.a = "saveload"
              /\ LET verb == CHOOSE k \in 1..NI : Table.int[k].name = "verbosity"
                     expect == val  got == ValsOf(Ev.loaded) IN
                 Step(Fail("SaveLoadSucceeds", Ev.ret) \cup SavedFails([expect EXCEPT !.i[verb] = got.i[verb]], got)
                      \cup ValsFails(val, ValsOf(Ev.vals)) \cup LPFails, val)
\* C13: a settings file with arbitrary content.  Whatever loadSettingsFile() makes of it, afterwards every parameter holds a
\* value of its range (the values themselves are taken from the trace: the content of the file is not specified)
\* (values >= 1e100 are printed as inf)
RealOK(k, x) == InRangeReal(k, x) \/ (x = "inf" /\ BRLeq(E100, Bound(Table.real[k].upper))) \/ (x = "-inf" /\ BRLeq(Bound(Table.real[k].lower), BRNeg(E100)))
TVFuzzLoad == /\ Ev.a = "fuzzload"
              /\ LET v == ValsOf(Ev.vals) IN
                 Step(Fail("Shape", Len(v.b) = NB /\ Len(v.i) = NI /\ Len(v.r) = NRL)
                      \cup Fail("IntInRangeAfterLoad", \A k \in 1..NI : InRangeInt(k, v.i[k]))
                      \cup Fail("RealInRangeAfterLoad", \A k \in 1..NRL : RealOK(k, v.r[k]))
                      \cup Fail("UnmutatedFileAccepted", Ev.mutation = "none" => Ev.ret)
                      \cup LPFails \cup SenseFails(v), v)
TVResetSettings == /\ Ev.a = "reset"
                   /\ LET verb == CHOOSE k \in 1..NI : Table.int[k].name = "verbosity"
                          v == [Defaults EXCEPT !.i[verb] = "0"] IN
                      Step(ValsFails(v, ValsOf(Ev.vals)) \cup LPFails \cup SenseFails(v), v)
TVCopySettings == /\ Ev.a = "copySettings"
                  /\ Step(Fail("SetSettingsSucceeds", Ev.ret)
                          \cup { "SetSettings:" \o n : n \in ValsFails(val, ValsOf(Ev.viaSetSettings)) }
                          \cup { "Copy:" \o n : n \in ValsFails(val, ValsOf(Ev.viaCopy)) }
                          \cup ValsFails(val, ValsOf(Ev.vals)) \cup LPFails, val)

Init == val = Defaults /\ lp = "" /\ l = 1
Next == l <= Len(Tr) /\ (TVReset \/ TVCreate \/ TVSet \/ TVParse \/ TVSaveLoad \/ TVFuzzLoad \/ TVResetSettings \/ TVCopySettings)
Spec == Init /\ [][Next]_vars
Accepted == TLCGet("stats").diameter - 1 = Len(Tr)
Report == IF Accepted THEN PrintT(<<"ACCEPTED", Len(Tr)>>) ELSE PrintT(<<"REJECTED", TLCGet("stats").diameter, Len(Tr)>>) /\ FALSE
=============================================================================
