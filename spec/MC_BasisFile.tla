---------------------------- MODULE MC_BasisFile ----------------------------
(* Exhaustive: for every bound/side pattern of an LP with NRows rows and NCols columns and EVERY structurally valid basis,
   reading what the writer wrote restores exactly the same statuses, in the standard and in the CPLEX-compatible format. *)
EXTENDS BasisFile, TLC
CONSTANTS NRows, NCols
VarKinds == { [lf |-> a, uf |-> b, eq |-> c, objNonPos |-> d] : a, b, c, d \in BOOLEAN }
Kinds == { v \in VarKinds : v.eq => (v.lf /\ v.uf) }
RowKinds == { v \in Kinds : v.objNonPos }
VARIABLES lpt, br, bc, cpx, done
vars == <<lpt, br, bc, cpx, done>>
Init == /\ lpt \in [rows : [1..NRows -> RowKinds], cols : [1..NCols -> Kinds]]
        /\ br \in [1..NRows -> 0..4] /\ bc \in [1..NCols -> 0..4] /\ cpx \in BOOLEAN /\ done = FALSE
        /\ ValidBasis(lpt, br, bc)
Next == done = FALSE /\ done' = TRUE /\ UNCHANGED <<lpt, br, bc, cpx>>
RoundTrip == LET b == ReadBas(lpt, WriteBas(lpt, br, bc, cpx)) IN b.rows = br /\ b.cols = bc
\* every record names a basic column paired with a nonbasic row, or a nonbasic column
RecordsWellFormed == \A k \in 1..Len(WriteBas(lpt, br, bc, cpx)) :
                        LET rc == WriteBas(lpt, br, bc, cpx)[k] IN
                        IF rc[1] \in {"XU", "XL"} THEN bc[rc[2] + 1] = BASIC /\ br[rc[3] + 1] # BASIC ELSE rc[1] = "UL" /\ bc[rc[2] + 1] = ON_UPPER
=============================================================================
