---------------------------- MODULE MC_SolveDriver ----------------------------
(* Exhaustive exploration of the rules of SolveDriver.tla: every outcome of every frame, with the flags set the way the
   code sets them at the points the rules leave open.  See the header of SolveDriver.tla. *)
EXTENDS SolveDriver

\* ---- MC: every event the implementation could produce next
VARIABLE st
B01 == {0, 1}
\* the pointer the code passes on (this is what the fix changed)
CodeIntr == IF Design = "dropped" /\ Depth(st) >= 1 THEN 0 ELSE Bit(st.intr)
Universe ==
   IF ~st.running THEN { Ev("optimize", 0, a, b, c, x) : a \in B01, b \in B01, c \in B01, x \in B01 }
   ELSE IF Depth(st) = 0 THEN { Ev("frame", 1, Bit(~st.hasBasis /\ ~st.objlim), Bit(st.intr), Bit(st.hasBasis), 2 + s) : s \in B01 }
   ELSE LET f == Top(st) IN
     CASE f.phase = "entered" ->
            \* the simplifier / a scaler may or may not be configured; without preprocessing only the persistent scaler stays
            { Ev("solve", Depth(st), CodeIntr, simp, scal, Bit(st.objlim /\ ~f.limitOff)) :
                simp \in (IF f.applySimp THEN B01 ELSE {0}), scal \in (IF f.applySimp THEN B01 ELSE {Bit(f.scaledIn)}) }
            \cup (IF f.applySimp THEN { Ev("presolved", Depth(st), v, 0, 0, 0) : v \in PresolveVerdicts } ELSE {})
       [] f.phase = "solving" -> { Ev("solved", Depth(st), s, 0, 0, 0) : s \in {x \in SolverStatuses : x = ABORT_VALUE => f.limit} }
       [] f.phase = "resolving" -> { Ev("frame", Depth(st) + 1, 0, CodeIntr, h, l * 2 + Bit(f.childScaledIn)) : h \in B01, l \in B01 }
       [] f.phase \in {"solved", "presolved", "resumed"} ->
            \* sites: the flags the code has at each of them
            UNION { { Ev("resolve", Depth(st), s, Bit(f.simp), Bit(f.scal), x) :
                 x \in (IF s \in {SITE_VERIFY, SITE_OBJLIMIT} THEN {2}                       \* loaded, persistent scaling removed
                        ELSE IF s = SITE_POLISH THEN {2 + Bit(f.scaledIn)}                  \* _storeSolutionReal reloaded the user's LP
                        ELSE {Bit(f.scaledIn), 2 + Bit(f.scaledIn)}) } : s \in Sites }
            \cup { Ev("ret", Depth(st), 1, 1, c, x) : c \in B01, x \in B01 }
       [] OTHER -> {}
MCInit == st = Idle
\* an event that breaks one of the three demands under test is still taken (and remembered in st.bad), every other
\* rule prunes: the model explores exactly the behaviours the rules allow
Tested == {"Bounded", "InterruptReaches"}
MCNext == \E e \in Universe :
             /\ Fails(st, e) \subseteq Tested
             /\ Depth(st) <= MaxDepth + 1
             /\ st' = [After(st, e) EXCEPT !.bad = st.bad \cup Fails(st, e)]
MCSpec == MCInit /\ [][MCNext]_st
Bounded == "Bounded" \notin st.bad
InterruptReaches == "InterruptReaches" \notin st.bad
ReturnsLoaded == ~st.running => (st.loaded /\ st.realIsSolver)
\* vacuity: the deepest recursion the rules admit is reached
DepthReached == st.maxdepth < MaxDepth
=============================================================================
