------------------------------ MODULE LUFactor ------------------------------
(***************************************************************************)
(* The LU factorization object (SLUFactor / SLUFactorRational) as a          *)
(* sequential state machine (C10, C11).                                      *)
(*   M   current matrix: sequence of columns, each a dense sequence of Num   *)
(*   st  "UNLOADED" | "OK" | "SINGULAR"                                      *)
(* Load(cols)      M' = cols; st' = SINGULAR iff det(cols) = 0 (exact)       *)
(* Solve*(b) -> x  enabled iff st = OK;  M x = b  (right)  /  x^T M = b^T    *)
(* Change(i, col)  M' = [M EXCEPT ![i] = col]; the driver keeps det(M') # 0  *)
(* For SLUFactor<double> "=" means a backward residual at rounding level,    *)
(* for SLUFactorRational exact equality.                                     *)
(***************************************************************************)
EXTENDS BigRat, Sequences, Integers

Dim(M) == Len(M)
\* rows of the matrix given by columns
RowsOf(M) == [i \in 1..Dim(M) |-> [j \in 1..Dim(M) |-> M[j][i]]]
MatMaxAbs(M) == BRMaxAbs([j \in 1..Dim(M) |-> BRMaxAbs(M[j])])
VecSub(a, b) == [i \in 1..Len(a) |-> BRSub(a[i], b[i])]
\* M x   and   x^T M
MulRight(M, x) == BRMatVec(RowsOf(M), x)
MulLeft(M, x) == BRVecMat(x, RowsOf(M))
Singular(M) == BRDet(RowsOf(M)) = "0"

ResidOK(res, mag, exact) == IF exact THEN \A k \in 1..Len(res) : res[k] = "0"
                            ELSE BRLeq(BRMaxAbs(res), BRMulPow2(BRAdd(mag, "1"), -26))
SolveOK(M, side, b, x, exact) ==
   /\ Len(x) = Dim(M) /\ Len(b) = Dim(M) /\ \A k \in 1..Len(x) : BRIsFinite(x[k]) /\ ~BRIsNan(x[k])
   /\ LET prod == IF side = "right" THEN MulRight(M, x) ELSE MulLeft(M, x)
          mag == BRAdd(BRMul(MatMaxAbs(M), BRSumAbs(x)), BRMaxAbs(b))
      IN ResidOK(VecSub(prod, b), mag, exact)
Replace(M, i, col) == [M EXCEPT ![i + 1] = col]
=============================================================================
