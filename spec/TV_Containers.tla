--------------------------- MODULE TV_Containers ---------------------------
(* Trace validation of the container / vector drivers (harness/cont_drv.cpp) against Containers.tla (C19).
   Every event is one public call on a real container object; "st" is the complete abstract value read back through
   the public accessors after the call, "probe" the answers of the lookup functions for every key / name / index that
   was ever used with this container. *)
EXTENDS Containers, Json, IOUtils, TLC
Tr == ndJsonDeserialize(IOEnv.TRACE)
VARIABLES cs, l
vars == <<cs, l>>
Ev == Tr[l]
Live == DOMAIN cs
Fail(name, ok) == IF ok THEN {} ELSE {name}
Step(fails, newcs) == IF fails = {} THEN cs' = newcs /\ l' = l + 1
                      ELSE PrintT(<<"GUARDFAIL", l, Ev.a, fails>>) /\ FALSE
Put(c, fam, items) == [x \in (DOMAIN cs) \cup {c} |-> IF x = c THEN [fam |-> fam, items |-> items] ELSE cs[x]]
Upd(items) == Put(Ev.c, cs[Ev.c].fam, items)
It == cs[Ev.c].items
Fam == cs[Ev.c].fam
\* the projection equals the predicted value, and every lookup answers for the predicted value
StIs(items) == Fail("State", Ev.st = items)
KProbe(items) == Fail("Has(key)", \A i \in 1..Len(Ev.probe) : Ev.probe[i].has = (Ev.probe[i].k \in Keys(items)))
                 \cup Fail("Number(key)", \A i \in 1..Len(Ev.probe) : Ev.probe[i].k \in Keys(items) => Ev.probe[i].num = PosOfKey(items, Ev.probe[i].k))
                 \cup Fail("KeysDistinct", KeysDistinct(items))
NProbe(items) == IF "nprobe" \in DOMAIN Ev
                 THEN Fail("NameLookup", \A i \in 1..Len(Ev.nprobe) :
                         LET pos == {j \in 1..Len(items) : items[j].v = Ev.nprobe[i].name} IN
                         IF pos = {} THEN Ev.nprobe[i].num = -1 ELSE Ev.nprobe[i].num + 1 \in pos)
                 ELSE {}
KAll(items) == StIs(items) \cup KProbe(items) \cup NProbe(items)

TVReset == Ev.a = "Reset" /\ cs' = <<>> /\ l' = l + 1
TVNew == Ev.a = "new" /\ Step(Fail("NewIsEmpty", Ev.st = <<>>) \cup Fail("FreshId", Ev.c \notin Live), Put(Ev.c, Ev.fam, <<>>))
TVDestroy == Ev.a = "destroy" /\ Ev.c \in Live /\ Step({}, [x \in Live \ {Ev.c} |-> cs[x]])
TVCopy == /\ Ev.a \in {"copy", "assign"} /\ Ev.src \in Live
          /\ LET items == cs[Ev.src].items IN
             Step((IF cs[Ev.src].fam = "keyed" THEN KAll(items) ELSE StIs(items))
                  \cup Fail("SourceUnchanged", Ev.srcSt = items), Put(Ev.c, cs[Ev.src].fam, items))
TVNoop == Ev.a = "noop" /\ Ev.c \in Live /\ Step(IF Fam = "keyed" THEN KAll(It) ELSE StIs(It), cs)
TVClear == Ev.a = "clear" /\ Ev.c \in Live /\ Step(IF Fam = "keyed" THEN KAll(<<>>) ELSE StIs(<<>>), Upd(<<>>))
\* ---- keyed sets
TVKAdd == /\ Ev.a = "kadd" /\ Ev.c \in Live /\ Fam = "keyed"
          /\ LET new == KAddMany(It, Ev.keys, Ev.vals) IN
             Step(Fail("FreshKeys", Len(Ev.keys) = Len(Ev.vals) /\ FreshKeys(It, Ev.keys)) \cup KAll(new), Upd(new))
TVKAddDup == /\ Ev.a = "kaddDup" /\ Ev.c \in Live /\ Fam = "keyed"
             /\ Step(Fail("IsDuplicate(harness)", \E i \in 1..Len(It) : It[i].v = Ev.v) \cup KAll(It), cs)
TVKRemove == /\ Ev.a = "kremove" /\ Ev.c \in Live /\ Fam = "keyed"
             /\ IF Ev.i \in 0..(Len(It) - 1)
                THEN LET new == KRemove(It, Ev.i + 1) IN Step(KAll(new), Upd(new))
                ELSE Step({"RemoveArg(harness)"}, cs)
TVKRemoveMany ==
   /\ Ev.a = "kremoveMany" /\ Ev.c \in Live /\ Fam = "keyed"
   /\ LET sel == {Ev.sel[i] + 1 : i \in 1..Len(Ev.sel)} IN
      IF ~(sel \subseteq 1..Len(It)) THEN Step({"RemoveArg(harness)"}, cs)
      ELSE IF Ev.perm # <<>>
      THEN IF PermOK(It, sel, Ev.perm) THEN LET new == KApplyPerm(It, Ev.perm) IN Step(KAll(new), Upd(new))
           ELSE Step({"PermDescribesRemoval"}, cs)
      ELSE \* no perm reported: any dense renumbering of the survivors
           Step(Fail("SurvivorsKept", Range(Ev.st) = Survivors(It, sel) /\ Len(Ev.st) = Len(It) - Cardinality(sel))
                \cup KProbe(Ev.st) \cup NProbe(Ev.st), Upd(Ev.st))
TVKSet == /\ Ev.a = "kset" /\ Ev.c \in Live /\ Fam = "keyed" /\ Ev.i \in 0..(Len(It) - 1)
          /\ LET new == KSet(It, Ev.i + 1, Ev.v) IN Step(KAll(new), Upd(new))
\* ---- sequences
TVSAppend == /\ Ev.a = "sappend" /\ Ev.c \in Live /\ Fam \in {"seq", "list"}
             /\ LET new == It \o Ev.vals IN Step(StIs(new), Upd(new))
TVSInsert == /\ Ev.a = "sinsert" /\ Ev.c \in Live /\ Fam \in {"seq", "list"} /\ Ev.i \in 0..Len(It)
             /\ LET new == SInsert(It, Ev.i, Ev.vals) IN Step(StIs(new), Upd(new))
TVSRemove == /\ Ev.a = "sremove" /\ Ev.c \in Live /\ Fam \in {"seq", "list"} /\ Ev.i >= 0 /\ Ev.n >= 0 /\ Ev.i + Ev.n <= Len(It)
             /\ LET new == SRemove(It, Ev.i, Ev.n) IN Step(StIs(new), Upd(new))
TVSResize == /\ Ev.a = "sresize" /\ Ev.c \in Live /\ Fam = "seq" /\ Ev.n >= 0
             /\ IF Ev.n <= Len(It) THEN LET new == SubSeq(It, 1, Ev.n) IN Step(StIs(new), Upd(new))
                ELSE Step(Fail("GrowKeepsPrefix", Len(Ev.st) = Ev.n /\ SubSeq(Ev.st, 1, Len(It)) = It), Upd(Ev.st))
TVSSet == /\ Ev.a = "sset" /\ Ev.c \in Live /\ Fam = "seq" /\ Ev.i \in 0..(Len(It) - 1)
          /\ LET new == [It EXCEPT ![Ev.i + 1] = Ev.v] IN Step(StIs(new), Upd(new))
\* ---- lists: forward and backward traversal agree; first/last/length answers
ListProbe(items) == Fail("Length", Ev.len = Len(items))
                    \cup Fail("First", Ev.first = (IF items = <<>> THEN -1 ELSE items[1]))
                    \cup Fail("Last", Ev.last = (IF items = <<>> THEN -1 ELSE items[Len(items)]))
                    \cup (IF "rev" \in DOMAIN Ev THEN Fail("Backward", Ev.rev = [i \in 1..Len(items) |-> items[Len(items) + 1 - i]]) ELSE {})
TVList == /\ Ev.a = "lop" /\ Ev.c \in Live /\ Fam = "list"
          /\ LET pos(v) == CHOOSE i \in 1..Len(It) : It[i] = v
                 new == CASE Ev.op = "append" -> Append(It, Ev.v)
                          [] Ev.op = "prepend" -> <<Ev.v>> \o It
                          [] Ev.op = "insertAfter" -> SInsert(It, pos(Ev.after), <<Ev.v>>)
                          [] Ev.op = "remove" -> SRemove(It, pos(Ev.v) - 1, 1)
                          [] Ev.op = "removeNext" -> SRemove(It, pos(Ev.after), 1)
                          [] Ev.op = "removeFirst" -> Tail(It)
                          [] Ev.op = "removeLast" -> SubSeq(It, 1, Len(It) - 1)
                          [] Ev.op = "removeRange" -> SRemove(It, pos(Ev.from) - 1, pos(Ev.to) - pos(Ev.from) + 1)
                          [] Ev.op = "appendList" -> It \o Ev.vals
                          [] Ev.op = "prependList" -> Ev.vals \o It
                          [] Ev.op = "noop" -> It
                          [] OTHER -> <<"?">>
                 retOK == CASE Ev.op = "removeNext" -> TRUE
                            [] Ev.op \in {"removeFirst"} -> Ev.ret = It[1]
                            [] Ev.op \in {"removeLast"} -> Ev.ret = It[Len(It)]
                            [] OTHER -> TRUE
             IN Step(StIs(new) \cup ListProbe(new) \cup Fail("Returned", retOK), Upd(new))
\* ---- bags (index sets): no duplicates, order free after a removal
BagProbe(items) == Fail("NoDuplicates", NoDup(items))
                   \cup Fail("Pos", \A i \in 1..Len(Ev.probe) :
                          IF Ev.probe[i].idx \in Range(items) THEN Ev.probe[i].pos \in 0..(Len(items) - 1) /\ items[Ev.probe[i].pos + 1] = Ev.probe[i].idx
                          ELSE Ev.probe[i].pos = -1)
                   \cup Fail("Dim", Ev.dim = (IF items = <<>> THEN -1 ELSE CHOOSE m \in Range(items) : \A x \in Range(items) : x <= m))
TVBAdd == /\ Ev.a = "badd" /\ Ev.c \in Live /\ Fam = "bag"
          /\ LET new == It \o Ev.vals IN Step(StIs(new) \cup BagProbe(new), Upd(new))
TVBRemove == /\ Ev.a = "bremove" /\ Ev.c \in Live /\ Fam = "bag" /\ Ev.from >= 0 /\ Ev.from <= Ev.to /\ Ev.to < Len(It)
             /\ Step(Fail("BagAfterRemoval", Range(Ev.st) = BRemovePos(It, Ev.from, Ev.to) /\ Len(Ev.st) = Len(It) - (Ev.to - Ev.from + 1))
                     \cup BagProbe(Ev.st), Upd(Ev.st))
\* ---- maps (hash table): items = sequence of [k, v] sorted by k
MapGet(items, k) == LET pos == {i \in 1..Len(items) : items[i].k = k} IN IF pos = {} THEN [has |-> FALSE, v |-> -1] ELSE [has |-> TRUE, v |-> items[CHOOSE i \in pos : TRUE].v]
MapProbe(items) == Fail("Get", \A i \in 1..Len(Ev.probe) : LET g == MapGet(items, Ev.probe[i].k) IN Ev.probe[i].has = g.has /\ (g.has => Ev.probe[i].v = g.v))
SameMap(a, b) == Range(a) = Range(b) /\ Len(a) = Len(b)
TVMap == /\ Ev.a = "mop" /\ Ev.c \in Live /\ Fam = "map"
         /\ LET without(k) == {It[i] : i \in {j \in 1..Len(It) : It[j].k # k}}
                newset == CASE Ev.op = "add" -> Range(It) \cup {[k |-> Ev.k, v |-> Ev.v]}
                            [] Ev.op = "remove" -> without(Ev.k)
                            [] Ev.op = "noop" -> Range(It)
                            [] OTHER -> {}
            IN Step(Fail("AddFreshKey(harness)", Ev.op = "add" => ~MapGet(It, Ev.k).has)
                    \cup Fail("MapContent", Range(Ev.st) = newset /\ Len(Ev.st) = Cardinality(newset)) \cup MapProbe(Ev.st), Upd(Ev.st))
\* ---- vectors: every operation equals dense exact arithmetic (the drivers use data on which double arithmetic is exact)
TVVop ==
   /\ Ev.a = "vop"
   /\ LET x == Ev.x  y == Ev.y  a == Ev.alpha
          exp == CASE Ev.op = "assign" -> x
                   [] Ev.op = "add" -> VAdd(y, x)               \* y += x
                   [] Ev.op = "sub" -> VSub(y, x)               \* y -= x
                   [] Ev.op = "scale" -> VScale(a, x)           \* x *= a
                   [] Ev.op = "axpy" -> VAxpy(a, x, y)          \* y.multAdd(a, x)
                   [] Ev.op = "setup" -> x
                   [] Ev.op = "sort" -> x
                   [] Ev.op = "clear" -> [i \in 1..Len(x) |-> "0"]
                   [] OTHER -> <<>>
          scal == CASE Ev.op = "dot" -> VDot(x, y)
                    [] Ev.op = "maxAbs" -> VMaxAbs(x)
                    [] Ev.op = "length2" -> VLen2(x)
                    [] OTHER -> "nan"
      IN Step(IF Ev.op \in {"dot", "maxAbs", "length2"} THEN Fail("Scalar:" \o Ev.op \o ":" \o Ev.types, Ev.val = scal)
              ELSE Fail("Vector:" \o Ev.op \o ":" \o Ev.types, Ev.res = exp)
                   \cup (IF "nnz" \in DOMAIN Ev THEN Fail("Nnz:" \o Ev.op \o ":" \o Ev.types, Ev.nnz = VNnz(exp)) ELSE {})
                   \cup (IF "sorted" \in DOMAIN Ev THEN Fail("Sorted", \A i \in 1..(Len(Ev.sorted) - 1) : Ev.sorted[i] < Ev.sorted[i + 1]) ELSE {}), cs)
Init == cs = <<>> /\ l = 1
Next == /\ l <= Len(Tr)
        /\ \/ TVReset \/ TVNew \/ TVDestroy \/ TVCopy \/ TVNoop \/ TVClear \/ TVKAdd \/ TVKAddDup \/ TVKRemove \/ TVKRemoveMany \/ TVKSet
           \/ TVSAppend \/ TVSInsert \/ TVSRemove \/ TVSResize \/ TVSSet \/ TVList \/ TVBAdd \/ TVBRemove \/ TVMap \/ TVVop
Spec == Init /\ [][Next]_vars
Accepted == TLCGet("stats").diameter - 1 = Len(Tr)
Report == IF Accepted THEN PrintT(<<"ACCEPTED", Len(Tr)>>) ELSE PrintT(<<"REJECTED", TLCGet("stats").diameter, Len(Tr)>>) /\ FALSE
=============================================================================
