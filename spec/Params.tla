------------------------------- MODULE Params -------------------------------
(***************************************************************************)
(* The parameter store of SoPlexBase (C15).                                 *)
(* Table = spec/params_table.json, transcribed ONCE from the pinned tree    *)
(* (names, ranges, defaults): a later change of a range in the code is a    *)
(* deviation from this table, not a moving oracle.                          *)
(*   val == [b : Seq(BOOLEAN), i : Seq(Num), r : Seq(Num)]   (Num = BigRat) *)
(***************************************************************************)
EXTENDS BigRat, Json, Sequences, Integers, FiniteSets

Table == JsonDeserialize("params_table.json")
NB == Len(Table.bool)   NI == Len(Table.int)   NRL == Len(Table.real)
E100 == "10000000000000000159028911097599180468360808563945281389781327557747838772170381060813469985856815104"
\* "inf" in the table and in reported values stands for the double 1e100 (SoPlex's infinity)
Bound(x) == IF x = "inf" THEN E100 ELSE IF x = "-inf" THEN BRNeg(E100) ELSE x
NormInf(v) == IF BRIsNan(v) THEN v ELSE IF BRLeq(E100, v) THEN "inf" ELSE IF BRLeq(v, BRNeg(E100)) THEN "-inf" ELSE v

Defaults == [b |-> [k \in 1..NB |-> Table.bool[k].default],
             i |-> [k \in 1..NI |-> ToString(Table.int[k].default)],
             r |-> [k \in 1..NRL |-> Table.real[k].default]]

\* enumerated choices that are not a contiguous range
IntChoices(k) == IF Table.int[k].name = "objsense" THEN {"-1", "1"} ELSE {}
InRangeInt(k, v) == /\ BRLeq(ToString(Table.int[k].lower), v) /\ BRLeq(v, ToString(Table.int[k].upper))
                    /\ (IntChoices(k) = {} \/ v \in IntChoices(k))
InRangeReal(k, v) == ~BRIsNan(v) /\ BRLeq(Bound(Table.real[k].lower), v) /\ BRLeq(v, Bound(Table.real[k].upper))
\* build-configuration exceptions of the pinned build (no PaPILO): these settings may be refused although in range
PapiloBool(k) == \E pre \in {"simplifier_enable_singletoncols", "simplifier_enable_propagation", "simplifier_enable_parallelrows",
                             "simplifier_enable_parallelcols", "simplifier_enable_stuffing", "simplifier_enable_dualfix",
                             "simplifier_enable_fixcontinuous", "simplifier_enable_domcol"} : Table.bool[k].name = pre
MayRefuseInt(k, v) == (Table.int[k].name = "simplifier" /\ v = "2")
MayRefuseReal(k, v) == Table.real[k].name = "simplifier_modifyrowfac"

\* the typed setters: result <<ret, val'>>; Accept = in range and not refused
SetBool(val, k, bv)  == [val EXCEPT !.b[k] = bv]
SetInt(val, k, v)    == [val EXCEPT !.i[k] = v]
SetReal(val, k, v)   == [val EXCEPT !.r[k] = NormInf(v)]
=============================================================================
