----------------------------- MODULE TV_Literals -----------------------------
(* C12: every literal of the grammar (enumerated by TLC, GEN_Literals) as read by ratFromString, by the LP reader and by
   the MPS reader, in rational mode (exact value) and in floating-point mode (correctly rounded double). *)
EXTENDS Literals, Json, IOUtils, TLC
Tr == ndJsonDeserialize(IOEnv.TRACE)
VARIABLE l
Ev == Tr[l]
Fail(name, ok) == IF ok THEN {} ELSE {name}
LitFails(e) ==
   LET v == LitVal(e.text)  d == BRNearestDouble(v) IN
   Fail("LiteralInGrammar", e.text \in Lits /\ ~BRIsNan(v))
   \cup Fail("ratFromString", e.ratFromString = v)
   \cup Fail("LPRationalRead", e.lpRatOk /\ e.lpRat = v)
   \cup Fail("MPSRationalRead", e.mpsRatOk /\ e.mpsRat = v)
   \* fractions are a rational-mode notation; in floating-point mode only decimals are claimed
   \cup Fail("LPRealRead", e.frac \/ (e.lpRealOk /\ e.lpReal = d))
   \cup Fail("MPSRealRead", e.frac \/ (e.mpsRealOk /\ e.mpsReal = d))
Init == l = 1
Next == /\ l <= Len(Tr)
        /\ \/ Ev.a = "Reset" /\ l' = l + 1
           \/ Ev.a = "literal" /\ (IF LitFails(Ev) = {} THEN l' = l + 1 ELSE PrintT(<<"GUARDFAIL", l, Ev.text, LitFails(Ev)>>) /\ FALSE)
Spec == Init /\ [][Next]_l
Accepted == TLCGet("stats").diameter - 1 = Len(Tr)
Report == IF Accepted THEN PrintT(<<"ACCEPTED", Len(Tr)>>) ELSE PrintT(<<"REJECTED", TLCGet("stats").diameter, Len(Tr)>>) /\ FALSE
=============================================================================
