------------------------------- MODULE Threads -------------------------------
(***************************************************************************)
(* C18: distinct solver objects used concurrently from different threads.   *)
(*                                                                         *)
(* The library state a call can touch is split the way the implementation   *)
(* splits it:                                                               *)
(*   obj[o]      the state of one solver object (owned by one thread)       *)
(*   tls[t]      per-thread library state: the default precision of the     *)
(*               multiprecision type of the boosted solver (and the         *)
(*               thread_local constant infinity, which nothing writes)      *)
(*   global      process-wide library state: the static parameter tables    *)
(*               (immutable after start-up) and, since Boost 1.76, the      *)
(*               process-wide default precision                             *)
(* One action = one step of a public call that reads or writes library      *)
(* state outside the object: constructing an object (sets the precision to  *)
(* the initial one), starting an exact solve (resets it), one precision     *)
(* boost (reads the current precision, multiplies it by 3/2), one boosted   *)
(* solve (reads the precision to derive its tolerances).                    *)
(*                                                                         *)
(* Design == "thread"  : the calls use the per-thread precision (the tree   *)
(*                       after fix 4a0ed03)                                 *)
(* Design == "process" : the calls read and write the process-wide default  *)
(*                       (what BP::default_precision() does with Boost >=   *)
(*                       1.76; the tree before the fix).  TLC finds the     *)
(*                       interference in this design (MC_ThreadsOld.cfg).   *)
(*                                                                         *)
(* Property (Isolation): what a thread observes is a function of its own    *)
(* history only - every observation equals the one predicted by running    *)
(* that thread's history alone.  The implementation is bound to this by the *)
(* "alone" events of TV_API (threaded trace = trace of the same work alone) *)
(* and by ThreadSanitizer on the same executions.                           *)
(***************************************************************************)
EXTENDS Integers, Sequences, FiniteSets

CONSTANTS Thread, MaxOps, Design, InitialPrec, Limit

VARIABLES global,    \* process-wide default precision
          tls,       \* [Thread -> precision]
          boosts,    \* [Thread -> number of boosts since the solve of that thread started; -1 = no solve running]
          obs,       \* [Thread -> last observed precision or 0]
          ops        \* [Thread -> number of steps taken] (bounds the model)
vars == <<global, tls, boosts, obs, ops>>

\* the precision after k boosts of a solve, run alone: 50, then 57 (192 bits), then * 3/2 per boost
RECURSIVE Alone(_)
Alone(k) == IF k <= 0 THEN InitialPrec ELSE IF k = 1 THEN 57 ELSE (Alone(k - 1) * 3) \div 2

Read(t)     == IF Design = "thread" THEN tls[t] ELSE global
Write(t, v) == IF Design = "thread"
               THEN /\ tls' = [tls EXCEPT ![t] = v] /\ UNCHANGED global
               \* Boost >= 1.76: number::default_precision(v) writes the process-wide AND the calling thread's default
               ELSE /\ tls' = [tls EXCEPT ![t] = v] /\ global' = v

Step(t) == ops' = [ops EXCEPT ![t] = @ + 1]

\* SoPlexBase constructor: BP precision := _initialPrecision
Construct(t) == /\ ops[t] < MaxOps /\ boosts[t] = -1
                /\ Write(t, InitialPrec) /\ Step(t) /\ UNCHANGED <<boosts, obs>>
\* _optimizeRational -> _resetBoostedPrecision
StartSolve(t) == /\ ops[t] < MaxOps /\ boosts[t] = -1
                 /\ Write(t, InitialPrec) /\ boosts' = [boosts EXCEPT ![t] = 0] /\ Step(t) /\ UNCHANGED obs
\* _boostPrecision: first boost jumps to 57 digits, later ones multiply what is READ by 3/2
Boost(t) == /\ ops[t] < MaxOps /\ boosts[t] >= 0
            /\ LET new == IF boosts[t] = 0 THEN 57 ELSE (Read(t) * 3) \div 2 IN
               /\ new <= Limit
               /\ Write(t, new)
            /\ boosts' = [boosts EXCEPT ![t] = @ + 1] /\ obs' = [obs EXCEPT ![t] = 0] /\ Step(t)
\* a boosted solve derives its tolerances from the precision it reads ("Current precision = 1e-..")
BoostedSolve(t) == /\ ops[t] < MaxOps /\ boosts[t] >= 0
                   /\ obs' = [obs EXCEPT ![t] = Read(t)] /\ Step(t) /\ UNCHANGED <<global, tls, boosts>>
EndSolve(t) == /\ ops[t] < MaxOps /\ boosts[t] >= 0
               /\ boosts' = [boosts EXCEPT ![t] = -1] /\ obs' = [obs EXCEPT ![t] = 0] /\ Step(t) /\ UNCHANGED <<global, tls>>

Init == /\ global = InitialPrec /\ tls = [t \in Thread |-> InitialPrec]
        /\ boosts = [t \in Thread |-> -1] /\ obs = [t \in Thread |-> 0] /\ ops = [t \in Thread |-> 0]
Next == \E t \in Thread : Construct(t) \/ StartSolve(t) \/ Boost(t) \/ BoostedSolve(t) \/ EndSolve(t)
Spec == Init /\ [][Next]_vars

TypeOK == /\ global \in Nat /\ tls \in [Thread -> Nat] /\ boosts \in [Thread -> -1..MaxOps]
          /\ obs \in [Thread -> Nat] /\ ops \in [Thread -> 0..MaxOps]
\* what a thread observes depends on its own history only
Isolation == \A t \in Thread : obs[t] # 0 => obs[t] = Alone(boosts[t])
\* numbers created by a thread carry the precision that thread asked for
OwnPrecision == \A t \in Thread : boosts[t] >= 0 => tls[t] = Alone(boosts[t])
\* no thread's step changes what another thread will read
NoInterference == [][\A t \in Thread : ops'[t] = ops[t] => (IF Design = "thread" THEN tls'[t] = tls[t] ELSE TRUE)]_vars
=============================================================================
