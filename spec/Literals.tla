------------------------------ MODULE Literals ------------------------------
(***************************************************************************)
(* The numeric literals of LP and MPS files (C12):                          *)
(*    sign? digits? (. digits)? ([eE] sign? digits)?   |   sign? int / int  *)
(* enumerated as a product of small alphabets.  The VALUE of a literal is   *)
(* BigRat!BRFromDecimal(text) (exact), its floating-point value the         *)
(* correctly rounded double BRNearestDouble of that.                        *)
(***************************************************************************)
EXTENDS BigRat, Sequences, FiniteSets
Signs  == {"", "+", "-"}
IntDig == {"", "0", "1", "9", "10", "19", "907", "00"}
Fracs  == {"", ".", ".0", ".5", ".25", ".09", ".125", ".333"}
Exps   == {"", "e0", "e1", "E+2", "e-1", "e-2", "E-10", "e22", "e23", "e+05", "E-3"}
HasDigit(i, f) == i # "" \/ f \notin {"", "."}
Decimals == { s \o i \o f \o e : s \in Signs, i \in IntDig, f \in Fracs, e \in Exps } \ { s \o i \o f \o e : s \in Signs, i \in {""}, f \in {"", "."}, e \in Exps }
Fractions == { s \o n \o "/" \o d : s \in Signs, n \in {"0", "1", "3", "10", "22"}, d \in {"1", "3", "7", "100"} }
Lits == Decimals \cup Fractions
LitVal(t) == BRFromDecimal(t)
=============================================================================
