------------------------------ MODULE SoPlexAPI ------------------------------
(***************************************************************************)
(* The SoPlexBase<Real> facade as a sequential state machine.               *)
(*                                                                         *)
(* One solver object is the record                                          *)
(*   [rlp      the floating-point LP in the USER's space (LPModel record)   *)
(*    hasQ,qlp the rational LP (present in sync modes AUTO and MANUAL)      *)
(*    sync     0 ONLYREAL, 1 AUTO, 2 MANUAL                                  *)
(*    hasBasis, brow, bcol   basis statuses (0 ON_UPPER 1 ON_LOWER 2 FIXED  *)
(*                           3 ZERO 4 BASIC)                                 *)
(*    status   SPxSolverBase::Status code, hasSol                           *)
(*    ftol, otol, iterlimit, ensureray, offsetPar  the parameters the        *)
(*       (offsetPar: realParam(OBJ_OFFSET); the LP's own offset is reset by  *)
(*        clearLP and re-applied from the parameter at every solve)          *)
(*                           result guards depend on]                       *)
(* Every public entry point is an action  Act(o, e)  where e is the record  *)
(* of its arguments and (for calls that return data chosen by the code)     *)
(* its results; the same actions are used by                                 *)
(*   MC_API   (arguments drawn from small sets, TLC explores all histories) *)
(*   TV_API   (arguments and results read from a trace of the real code).   *)
(*                                                                         *)
(* Modification semantics come from LPModel; what a solve result must       *)
(* satisfy comes from LPSem.  The solve itself is abstract.                 *)
(***************************************************************************)
EXTENDS LPSem

\* status codes (src/soplex/spxsolver.h)
ST_UNKNOWN == 0   ST_OPTIMAL == 1   ST_UNBOUNDED == 2   ST_INFEASIBLE == 3   ST_INFORUNBD == 4
ST_OPT_UNSCALED == 5
ST_ABORT_VALUE == -5  ST_ABORT_ITER == -6  ST_ABORT_TIME == -7  ST_ABORT_CYCLING == -8
ST_SINGULAR == -4  ST_NO_PROBLEM == -3  ST_REGULAR == -2  ST_RUNNING == -1  ST_ERROR == -15
\* basis statuses
ON_UPPER == 0  ON_LOWER == 1  FIXED == 2  ZERO == 3  BASIC == 4

NewObject == [rlp |-> [EmptyLP EXCEPT !.sense = 1], hasQ |-> FALSE, qlp |-> EmptyLP, sync |-> 0,
              hasBasis |-> FALSE, brow |-> <<>>, bcol |-> <<>>,
              status |-> ST_UNKNOWN, hasSol |-> FALSE,
              ftol |-> "1/1000000", otol |-> "1/1000000", iterlimit |-> -1, ensureray |-> FALSE,
              offsetPar |-> "0", epsz |-> "1/10000000000000000",
              tlimit |-> "inf", objlo |-> "-inf", objup |-> "inf"]

-----------------------------------------------------------------------------
\* One modification applied to one LP.  a = action name, g = argument record.
Apply(lp, a, g) ==
   CASE a = "addRow"        -> AddRow(lp, g.lhs, g.vec, g.rhs)
     [] a = "addRows"       -> AddRows(lp, g.rows)
     [] a = "addCol"        -> AddCol(lp, g.obj, g.lo, g.vec, g.up)
     [] a = "addCols"       -> AddCols(lp, g.cols)
     [] a = "changeRow"     -> ChangeRow(lp, g.i, g.lhs, g.vec, g.rhs)
     [] a = "changeCol"     -> ChangeCol(lp, g.i, g.obj, g.lo, g.vec, g.up)
     [] a = "changeLhs"     -> [lp EXCEPT !.lhs[g.i + 1] = g.v]
     [] a = "changeRhs"     -> [lp EXCEPT !.rhs[g.i + 1] = g.v]
     [] a = "changeRange"   -> [lp EXCEPT !.lhs[g.i + 1] = g.lhs, !.rhs[g.i + 1] = g.rhs]
     [] a = "changeLower"   -> [lp EXCEPT !.lo[g.i + 1] = g.v]
     [] a = "changeUpper"   -> [lp EXCEPT !.up[g.i + 1] = g.v]
     [] a = "changeBounds"  -> [lp EXCEPT !.lo[g.i + 1] = g.lo, !.up[g.i + 1] = g.up]
     [] a = "changeObj"     -> [lp EXCEPT !.obj[g.i + 1] = g.v]
     [] a = "changeLhsV"    -> [lp EXCEPT !.lhs = g.v]
     [] a = "changeRhsV"    -> [lp EXCEPT !.rhs = g.v]
     [] a = "changeRangeV"  -> [lp EXCEPT !.lhs = g.lhs, !.rhs = g.rhs]
     [] a = "changeLowerV"  -> [lp EXCEPT !.lo = g.v]
     [] a = "changeUpperV"  -> [lp EXCEPT !.up = g.v]
     [] a = "changeBoundsV" -> [lp EXCEPT !.lo = g.lo, !.up = g.up]
     [] a = "changeObjV"    -> [lp EXCEPT !.obj = g.v]
     [] a = "changeElement" -> ChangeElement(lp, g.i, g.j, g.v)
     [] a = "removeRow"     -> RemoveRow(lp, g.i)
     [] a = "removeCol"     -> RemoveCol(lp, g.i)
     [] a = "removeRowsPerm"  -> RemoveRowsPerm(lp, g.perm)
     [] a = "removeRowsIdx"   -> RemoveRowsPerm(lp, IdxToPerm(g.idx, NR(lp)))
     [] a = "removeRowRange"  -> RemoveRowsPerm(lp, RangeToPerm(g.start, g.end, NR(lp)))
     [] a = "removeColsPerm"  -> RemoveColsPerm(lp, g.perm)
     [] a = "removeColsIdx"   -> RemoveColsPerm(lp, IdxToPerm(g.idx, NC(lp)))
     [] a = "removeColRange"  -> RemoveColsPerm(lp, RangeToPerm(g.start, g.end, NC(lp)))
     [] a = "clearLP"       -> [EmptyLP EXCEPT !.sense = lp.sense, !.offset = lp.offset]   \* sense and offset are parameters, not LP data
ModNames == {"addRow", "addRows", "addCol", "addCols", "changeRow", "changeCol", "changeLhs", "changeRhs",
             "changeRange", "changeLower", "changeUpper", "changeBounds", "changeObj", "changeLhsV",
             "changeRhsV", "changeRangeV", "changeLowerV", "changeUpperV", "changeBoundsV", "changeObjV",
             "changeElement", "removeRow", "removeCol", "removeRowsPerm", "removeRowsIdx", "removeRowRange",
             "removeColsPerm", "removeColsIdx", "removeColRange", "clearLP"}
\* the perm[] out-array a removal call must hand back (only where the caller passed a buffer)
PermOut(lp, a, g) ==
   CASE a = "removeRowsPerm" -> NewPerm(g.perm)
     [] a = "removeRowsIdx"  -> NewPerm(IdxToPerm(g.idx, NR(lp)))
     [] a = "removeRowRange" -> NewPerm(RangeToPerm(g.start, g.end, NR(lp)))
     [] a = "removeColsPerm" -> NewPerm(g.perm)
     [] a = "removeColsIdx"  -> NewPerm(IdxToPerm(g.idx, NC(lp)))
     [] a = "removeColRange" -> NewPerm(RangeToPerm(g.start, g.end, NC(lp)))
     [] OTHER -> <<>>
\* argument validity (the drivers only issue valid calls; MC enumerates exactly these)
ValidArgs(lp, a, g) ==
   CASE a \in {"changeRow", "changeLhs", "changeRhs", "changeRange", "removeRow"} -> g.i \in 0..(NR(lp) - 1)
     [] a \in {"changeCol", "changeLower", "changeUpper", "changeBounds", "changeObj", "removeCol"} -> g.i \in 0..(NC(lp) - 1)
     [] a = "changeElement" -> g.i \in 0..(NR(lp) - 1) /\ g.j \in 0..(NC(lp) - 1)
     [] a \in {"changeLhsV", "changeRhsV"} -> Len(g.v) = NR(lp)
     [] a = "changeRangeV" -> Len(g.lhs) = NR(lp) /\ Len(g.rhs) = NR(lp)
     [] a \in {"changeLowerV", "changeUpperV", "changeObjV"} -> Len(g.v) = NC(lp)
     [] a = "changeBoundsV" -> Len(g.lo) = NC(lp) /\ Len(g.up) = NC(lp)
     [] a = "removeRowsPerm" -> Len(g.perm) = NR(lp)
     [] a = "removeColsPerm" -> Len(g.perm) = NC(lp)
     [] a = "removeRowsIdx" -> \A k \in 1..Len(g.idx) : g.idx[k] \in 0..(NR(lp) - 1)
     [] a = "removeColsIdx" -> \A k \in 1..Len(g.idx) : g.idx[k] \in 0..(NC(lp) - 1)
     [] a = "removeRowRange" -> 0 <= g.start /\ g.start <= g.end /\ g.end < NR(lp)
     [] a = "removeColRange" -> 0 <= g.start /\ g.start <= g.end /\ g.end < NC(lp)
     [] OTHER -> TRUE

-----------------------------------------------------------------------------
\* C07: the floating-point LP is the coefficient-wise image of the rational LP
\* a finite rational whose double image reaches the infinity threshold 1e100 is infinite in the floating-point LP
TenPow100 == BRPow10(100)
NumImage(q, r) == IF BRIsFinite(q) /\ BRIsFinite(r) THEN BRAdjacentDouble(q, r)
                  ELSE IF BRIsFinite(q) /\ r = "inf" THEN BRLeq(BRMul(TenPow100, "4503599627370495/4503599627370496"), q)
                  ELSE IF BRIsFinite(q) /\ r = "-inf" THEN BRLeq(q, BRNeg(BRMul(TenPow100, "4503599627370495/4503599627370496")))
                  ELSE q = r
SeqImage(qs, rs) == Len(qs) = Len(rs) /\ \A k \in 1..Len(qs) : NumImage(qs[k], rs[k])
\* matrix coefficients: changeElementReal drops values with |v| <= epsilon_zero (1e-16); deliberate deviation of the code
CoefImage(q, r) == NumImage(q, r) \/ (r = "0" /\ BRLeq(BRAbs(q), "1/10000000000000000"))
RowImage(qv, rv, nc) == \A j \in 0..(nc - 1) : CoefImage(Coef(qv, j), Coef(rv, j))
InSyncFails(r, q) ==
   IF NR(r) # NR(q) \/ NC(r) # NC(q) THEN {"Image:Dims"}
   ELSE Fail("Image:Sense", r.sense = q.sense)
        \cup Fail("Image:Lhs", SeqImage(q.lhs, r.lhs)) \cup Fail("Image:Rhs", SeqImage(q.rhs, r.rhs))
        \cup Fail("Image:Lower", SeqImage(q.lo, r.lo)) \cup Fail("Image:Upper", SeqImage(q.up, r.up))
        \cup Fail("Image:Obj", SeqImage(q.obj, r.obj))
        \cup Fail("Image:Matrix", \A i \in 1..NR(r) : RowImage(q.rows[i], r.rows[i], NC(r)))
InSync(r, q) == InSyncFails(r, q) = {}
\* exact image (real arguments entered through the real interface are doubles: no rounding at all)
IsDoubleLP(p) ==
   /\ \A k \in 1..NR(p) : BRIsDouble(p.lhs[k]) /\ BRIsDouble(p.rhs[k])
                          /\ \A t \in 1..Len(p.rows[k]) : BRIsDouble(p.rows[k][t][2])
   /\ \A k \in 1..NC(p) : BRIsDouble(p.lo[k]) /\ BRIsDouble(p.up[k]) /\ BRIsDouble(p.obj[k])

\* C04: structural validity of a basis for an LP
\* "fixed" = bounds equal up to the solver's zero tolerance: SPxSolver::change*Status marks a variable FIXED when
\* EQ(lower, upper, epsilon), epsilon = real:epsilon_zero (1e-16 by default, at most 1e-12 in the workloads)
SameBound(a, b) == BRIsFinite(a) /\ BRIsFinite(b) /\ BRLeq(BRAbs(BRSub(a, b)), BRMulPow2("1", -39))
ColStatusOK(lp, j, s) ==
   CASE s = ON_UPPER -> BRIsFinite(lp.up[j])
     [] s = ON_LOWER -> BRIsFinite(lp.lo[j])
     [] s = FIXED    -> SameBound(lp.lo[j], lp.up[j])
     [] s = ZERO     -> ~BRIsFinite(lp.lo[j]) /\ ~BRIsFinite(lp.up[j])
     [] s = BASIC    -> TRUE
     [] OTHER -> FALSE
RowStatusOK(lp, i, s) ==
   CASE s = ON_UPPER -> BRIsFinite(lp.rhs[i])
     [] s = ON_LOWER -> BRIsFinite(lp.lhs[i])
     [] s = FIXED    -> SameBound(lp.lhs[i], lp.rhs[i])
     [] s = ZERO     -> ~BRIsFinite(lp.lhs[i]) /\ ~BRIsFinite(lp.rhs[i])
     [] s = BASIC    -> TRUE
     [] OTHER -> FALSE
NumBasic(brow, bcol) == Cardinality({i \in 1..Len(brow) : brow[i] = BASIC}) + Cardinality({j \in 1..Len(bcol) : bcol[j] = BASIC})
BasisFails(lp, brow, bcol) ==
   IF Len(brow) # NR(lp) \/ Len(bcol) # NC(lp) THEN {"BasisShape"}
   ELSE Fail("BasisCount", NumBasic(brow, bcol) = NR(lp))
        \cup Fail("BasisRowStatus", \A i \in 1..NR(lp) : RowStatusOK(lp, i, brow[i]))
        \cup Fail("BasisColStatus", \A j \in 1..NC(lp) : ColStatusOK(lp, j, bcol[j]))
\* the basis matrix in the user's space: column k is the LP column bind[k] >= 0, or the unit vector of row -1-bind[k]
BasisMatrix(lp, bind) ==
   LET cols == ColView(lp) IN
   [i \in 1..NR(lp) |-> [k \in 1..NR(lp) |->
        IF bind[k] >= 0 THEN Coef(cols[bind[k] + 1], i - 1) ELSE IF -1 - bind[k] = i - 1 THEN "1" ELSE "0"]]
BindFails(lp, brow, bcol, bind) ==
   IF Len(bind) # NR(lp) THEN {"BindShape"}
   ELSE Fail("BindSameSet", {bind[k] : k \in 1..Len(bind)} =
                 {j - 1 : j \in {jj \in 1..NC(lp) : bcol[jj] = BASIC}} \cup {-i : i \in {ii \in 1..NR(lp) : brow[ii] = BASIC}})
        \cup Fail("BindDistinct", Cardinality({bind[k] : k \in 1..Len(bind)}) = NR(lp))
SetBasisNormal(lp, brow, bcol) == \* setBasis + getBasis returns it unchanged up to marking equal bounds FIXED
   [rows |-> [i \in 1..Len(brow) |-> IF brow[i] \in {ON_UPPER, ON_LOWER} /\ BRIsFinite(lp.lhs[i]) /\ lp.lhs[i] = lp.rhs[i] THEN FIXED ELSE brow[i]],
    cols |-> [j \in 1..Len(bcol) |-> IF bcol[j] \in {ON_UPPER, ON_LOWER} /\ BRIsFinite(lp.lo[j]) /\ lp.lo[j] = lp.up[j] THEN FIXED ELSE bcol[j]]]

-----------------------------------------------------------------------------
\* Result of optimize(): r = [status, hasSol, objval, sol, hasBasis, brow, bcol, bind, hasRay, ray,
\*                           hasFarkas, farkas, iters, interrupted]
\* truth = what is independently known about the LP: [known, v \in {"OPT","INF","UNB","PDINF"}, val]
Beyond(val, lim, sense) == IF sense = -1 THEN BRLeq(lim, val) ELSE BRLeq(val, lim)
SolveFails(s, r, truth, exact) ==
   LET lp == s.rlp  ft == IF exact THEN "0" ELSE s.ftol  ot == IF exact THEN "0" ELSE s.otol
       cert == IF r.status = ST_OPTIMAL /\ r.hasSol THEN CertFails(lp, r.sol, r.objval, ft, ot, exact) ELSE {} IN
   Fail("StatusCode", r.status \in {ST_OPTIMAL, ST_UNBOUNDED, ST_INFEASIBLE, ST_INFORUNBD, ST_OPT_UNSCALED,
                                    ST_ABORT_VALUE, ST_ABORT_ITER, ST_ABORT_TIME, ST_ABORT_CYCLING, ST_SINGULAR,
                                    ST_NO_PROBLEM, ST_REGULAR, ST_UNKNOWN, ST_ERROR})
   \cup Fail("OptimalHasSol", r.status = ST_OPTIMAL => r.hasSol)
   \cup cert
   \* a Farkas vector defines a row combination separated from the row sides; either orientation of the vector is a proof
   \cup (IF r.hasFarkas /\ Len(r.farkas) = NR(lp)
         THEN (IF FarkasFails(lp, r.farkas, ft) = {} \/ FarkasFails(lp, [i \in 1..NR(lp) |-> BRNeg(r.farkas[i])], ft) = {} THEN {}
               ELSE { "Farkas:" \o n : n \in FarkasFails(lp, r.farkas, ft) })
         ELSE IF r.hasFarkas THEN {"Farkas:Shape"} ELSE {})
   \cup (IF r.hasRay THEN { "Ray:" \o n : n \in RayFails(lp, r.ray, ft) } ELSE {})
   \cup Fail("EnsureRayFarkas", s.ensureray /\ r.status = ST_INFEASIBLE => r.hasFarkas)
   \cup Fail("EnsureRayRay", s.ensureray /\ r.status = ST_UNBOUNDED => r.hasRay)
   \cup Fail("IterLimit", s.iterlimit >= 0 => r.iters <= s.iterlimit)
   \cup Fail("AbortIterOnlyWithLimit", r.status = ST_ABORT_ITER => s.iterlimit >= 0)
   \cup Fail("AbortTimeOnlyWithCause", r.status = ST_ABORT_TIME => (BRIsFinite(s.tlimit) \/ r.interrupted))
   \* the interrupt flag was raised before the call: not a single pivot may be performed (cold or warm start)
   \cup Fail("InterruptHonoured", r.interrupted => r.iters = 0)
   \cup Fail("AbortValueOnlyWithLimit", r.status = ST_ABORT_VALUE => IF lp.sense = -1 THEN BRIsFinite(s.objup) ELSE BRIsFinite(s.objlo))
   \* an exact solve stopped before its first pivot on an object without a basis leaves it without one (hasBasis() = FALSE is
   \* then the honest answer and the continuation is checked separately); the floating-point path stores the slack basis
   \cup Fail("AbortLeavesBasis", r.status \in {ST_ABORT_ITER, ST_ABORT_VALUE} /\ (~exact \/ r.iters > 0) => r.hasBasis)
   \cup (IF truth.known THEN
           Fail("TruthOptimal", r.status = ST_OPTIMAL => truth.v = "OPT")
           \cup Fail("TruthInfeasible", r.status = ST_INFEASIBLE => truth.v \in {"INF", "PDINF"})
           \cup Fail("TruthUnbounded", r.status = ST_UNBOUNDED => truth.v = "UNB")
           \cup Fail("TruthInfOrUnbd", r.status = ST_INFORUNBD => truth.v # "OPT")
           \* termination by objective limit only if the optimum really lies beyond the limit in the direction of optimisation
           \cup Fail("AbortValueTruth", r.status = ST_ABORT_VALUE /\ truth.v = "OPT" =>
                        IF lp.sense = -1 THEN BRLeq(BRSub(s.objup, BRMulPow2(BRAdd(BRAbs(s.objup), "1"), -20)), truth.val)
                        ELSE BRLeq(truth.val, BRAdd(s.objlo, BRMulPow2(BRAdd(BRAbs(s.objlo), "1"), -20))))
           \cup Fail("AbortValueNotFeasible", r.status = ST_ABORT_VALUE => truth.v \in {"OPT", "INF", "PDINF"})
           \cup Fail("TruthValue", r.status = ST_OPTIMAL /\ r.hasSol /\ truth.v = "OPT" /\ cert = {} =>
                       BRLeq(BRAbs(BRSub(r.objval, truth.val)), IF exact THEN "0" ELSE GapBound(lp, r.sol, ft, ot)))
         ELSE {})
   \cup (IF r.hasBasis THEN BasisFails(lp, r.brow, r.bcol) \cup BindFails(lp, r.brow, r.bcol, r.bind)
                            \cup Fail("BasisRegular", r.status \in {ST_OPTIMAL, ST_UNBOUNDED, ST_INFEASIBLE, ST_ABORT_ITER, ST_ABORT_TIME, ST_ABORT_VALUE}
                                                      /\ BasisFails(lp, r.brow, r.bcol) = {} /\ BindFails(lp, r.brow, r.bcol, r.bind) = {} /\ NR(lp) <= 40
                                                      => BRDet(BasisMatrix(lp, r.bind)) # "0")
         ELSE {})
=============================================================================
