// Java operator overrides for module BigRat (TLC loads BigRat.class from the directory of BigRat.tla).
// Exact rationals are TLA+ strings "n", "n/d" (normalised: d > 1, gcd 1), "inf", "-inf", "nan".
// Independent arithmetic base: java.math.BigInteger (SoPlex itself uses GMP / Boost).
import tlc2.value.impl.*;
import java.math.BigInteger;
import java.util.concurrent.ConcurrentHashMap;

public class BigRat {
  static final BigInteger ZERO = BigInteger.ZERO, ONE = BigInteger.ONE, TWO = BigInteger.valueOf(2), TEN = BigInteger.TEN;
  static final class Q {
    final BigInteger n, d; final int inf; // inf: 0 finite, +1, -1, 2 = nan
    Q(BigInteger n, BigInteger d) { this.n = n; this.d = d; this.inf = 0; }
    Q(int inf) { this.n = ZERO; this.d = ONE; this.inf = inf; }
    boolean fin() { return inf == 0; }
    int sgn() { return inf == 0 ? n.signum() : (inf == 2 ? 0 : inf); }
  }
  static final Q PINF = new Q(1), NINF = new Q(-1), NAN = new Q(2), QZERO = new Q(ZERO, ONE), QONE = new Q(ONE, ONE);
  static final ConcurrentHashMap<String, Q> cache = new ConcurrentHashMap<>();

  static Q mk(BigInteger n, BigInteger d) {
    if (d.signum() == 0) return NAN;
    if (d.signum() < 0) { n = n.negate(); d = d.negate(); }
    BigInteger g = n.gcd(d);
    if (g.signum() != 0 && !g.equals(ONE)) { n = n.divide(g); d = d.divide(g); }
    return new Q(n, d);
  }
  static Q parse(String s) {
    Q c = cache.get(s);
    if (c != null) return c;
    Q r;
    if (s.equals("inf") || s.equals("+inf")) r = PINF;
    else if (s.equals("-inf")) r = NINF;
    else if (s.equals("nan")) r = NAN;
    else {
      int i = s.indexOf('/');
      try {
        if (i < 0) r = new Q(new BigInteger(s), ONE);
        else r = mk(new BigInteger(s.substring(0, i)), new BigInteger(s.substring(i + 1)));
      } catch (NumberFormatException e) { r = NAN; }
    }
    if (cache.size() < 2000000) cache.put(s, r);
    return r;
  }
  static String str(Q q) {
    if (q.inf == 1) return "inf"; if (q.inf == -1) return "-inf"; if (q.inf == 2) return "nan";
    return q.d.equals(ONE) ? q.n.toString() : q.n.toString() + "/" + q.d.toString();
  }
  static String s(Value v) { return ((StringValue) v).val.toString(); }
  static Q q(Value v) { return parse(s(v)); }
  static Value V(Q q) { return new StringValue(str(q)); }
  static Value B(boolean b) { return b ? BoolValue.ValTrue : BoolValue.ValFalse; }
  static int I(Value v) { return ((IntValue) v).val; }
  static Value[] T(Value v) { TupleValue t = (TupleValue) v.toTuple(); return t.elems; }

  static Q add(Q a, Q b) {
    if (a.inf == 2 || b.inf == 2) return NAN;
    if (!a.fin() || !b.fin()) {
      if (a.fin()) return b; if (b.fin()) return a;
      return a.inf == b.inf ? a : NAN;
    }
    if (a.d.equals(ONE) && b.d.equals(ONE)) return new Q(a.n.add(b.n), ONE);
    return mk(a.n.multiply(b.d).add(b.n.multiply(a.d)), a.d.multiply(b.d));
  }
  static Q neg(Q a) { if (a.inf == 2) return NAN; if (!a.fin()) return a.inf == 1 ? NINF : PINF; return new Q(a.n.negate(), a.d); }
  static Q mul(Q a, Q b) {
    if (a.inf == 2 || b.inf == 2) return NAN;
    if (!a.fin() || !b.fin()) { int sg = a.sgn() * b.sgn(); return sg == 0 ? NAN : (sg > 0 ? PINF : NINF); }
    if (a.d.equals(ONE) && b.d.equals(ONE)) return new Q(a.n.multiply(b.n), ONE);
    return mk(a.n.multiply(b.n), a.d.multiply(b.d));
  }
  static Q inv(Q a) {
    if (a.inf == 2) return NAN; if (!a.fin()) return QZERO;
    if (a.n.signum() == 0) return NAN;
    return mk(a.d, a.n);
  }
  static int cmp(Q a, Q b) { // nan compares as "unordered": callers test nan first
    if (!a.fin() || !b.fin()) {
      int x = a.fin() ? 0 : a.inf, y = b.fin() ? 0 : b.inf;
      return Integer.compare(x, y);
    }
    return a.n.multiply(b.d).compareTo(b.n.multiply(a.d));
  }
  static boolean isnan(Q a) { return a.inf == 2; }

  public static Value BRNorm(final Value a) { return V(q(a)); }
  public static Value BRAdd(final Value a, final Value b) { return V(add(q(a), q(b))); }
  public static Value BRSub(final Value a, final Value b) { return V(add(q(a), neg(q(b)))); }
  public static Value BRMul(final Value a, final Value b) { return V(mul(q(a), q(b))); }
  public static Value BRDiv(final Value a, final Value b) { return V(mul(q(a), inv(q(b)))); }
  public static Value BRNeg(final Value a) { return V(neg(q(a))); }
  public static Value BRAbs(final Value a) { Q x = q(a); return V(x.sgn() < 0 ? neg(x) : x); }
  public static Value BRLeq(final Value a, final Value b) { Q x = q(a), y = q(b); return B(!isnan(x) && !isnan(y) && cmp(x, y) <= 0); }
  public static Value BRLt(final Value a, final Value b) { Q x = q(a), y = q(b); return B(!isnan(x) && !isnan(y) && cmp(x, y) < 0); }
  public static Value BREq(final Value a, final Value b) { Q x = q(a), y = q(b); return B(!isnan(x) && !isnan(y) && cmp(x, y) == 0); }
  public static Value BRMin(final Value a, final Value b) { Q x = q(a), y = q(b); return V(cmp(x, y) <= 0 ? x : y); }
  public static Value BRMax(final Value a, final Value b) { Q x = q(a), y = q(b); return V(cmp(x, y) >= 0 ? x : y); }
  public static Value BRSign(final Value a) { return IntValue.gen(q(a).sgn()); }
  public static Value BRIsFinite(final Value a) { return B(q(a).fin()); }
  public static Value BRIsNan(final Value a) { return B(isnan(q(a))); }
  public static Value BRInt(final Value a) { return new StringValue(Integer.toString(I(a))); }
  public static Value BRFrac(final Value a, final Value b) { return V(mk(BigInteger.valueOf(I(a)), BigInteger.valueOf(I(b)))); }
  public static Value BRPow2(final Value e) { int k = I(e); return V(k >= 0 ? new Q(ONE.shiftLeft(k), ONE) : new Q(ONE, ONE.shiftLeft(-k))); }
  public static Value BRPow10(final Value e) { int k = I(e); return V(k >= 0 ? new Q(TEN.pow(k), ONE) : new Q(ONE, TEN.pow(-k))); }
  public static Value BRMulPow2(final Value a, final Value e) {
    Q x = q(a); int k = I(e); if (!x.fin()) return V(x);
    return V(k >= 0 ? mk(x.n.shiftLeft(k), x.d) : mk(x.n, x.d.shiftLeft(-k)));
  }
  public static Value BRSum(final Value a) { Q r = QZERO; for (Value v : T(a)) r = add(r, q(v)); return V(r); }
  public static Value BRSumAbs(final Value a) { Q r = QZERO; for (Value v : T(a)) { Q x = q(v); r = add(r, x.sgn() < 0 ? neg(x) : x); } return V(r); }
  public static Value BRMaxAbs(final Value a) { Q r = QZERO; for (Value v : T(a)) { Q x = q(v); if (x.sgn() < 0) x = neg(x); if (cmp(x, r) > 0) r = x; } return V(r); }
  public static Value BRDot(final Value a, final Value b) {
    Value[] x = T(a), y = T(b); Q r = QZERO;
    int n = Math.min(x.length, y.length);
    if (x.length != y.length) return V(NAN);
    for (int i = 0; i < n; i++) { Q p = q(x[i]), w = q(y[i]); if (p.sgn() == 0 && p.fin() || w.sgn() == 0 && w.fin()) continue; r = add(r, mul(p, w)); }
    return V(r);
  }
  public static Value BRDotAbs(final Value a, final Value b) {
    Value[] x = T(a), y = T(b); Q r = QZERO;
    if (x.length != y.length) return V(NAN);
    for (int i = 0; i < x.length; i++) { Q p = q(x[i]), w = q(y[i]); if (p.sgn() == 0 && p.fin() || w.sgn() == 0 && w.fin()) continue; Q m = mul(p, w); r = add(r, m.sgn() < 0 ? neg(m) : m); }
    return V(r);
  }
  // sparse vector = sequence of <<idx0, val>> (0-based index); dense = sequence (1-based)
  public static Value BRSpDot(final Value sp, final Value dense) {
    Value[] e = T(sp), y = T(dense); Q r = QZERO;
    for (Value ev : e) { Value[] p = T(ev); int j = I(p[0]); if (j < 0 || j >= y.length) return V(NAN);
      Q w = q(y[j]); Q c = q(p[1]); if (w.fin() && w.sgn() == 0) continue; r = add(r, mul(c, w)); }
    return V(r);
  }
  public static Value BRSpDotAbs(final Value sp, final Value dense) {
    Value[] e = T(sp), y = T(dense); Q r = QZERO;
    for (Value ev : e) { Value[] p = T(ev); int j = I(p[0]); if (j < 0 || j >= y.length) return V(NAN);
      Q w = q(y[j]); Q c = q(p[1]); if (w.fin() && w.sgn() == 0) continue; Q m = mul(c, w); r = add(r, m.sgn() < 0 ? neg(m) : m); }
    return V(r);
  }

  // ---- doubles
  static boolean isDyadic(BigInteger d) { return d.bitCount() == 1; }
  static boolean isDouble(Q x) {
    if (!x.fin()) return true; if (x.n.signum() == 0) return true;
    if (!isDyadic(x.d)) return false;
    BigInteger m = x.n.abs(); int tz = m.getLowestSetBit(); m = m.shiftRight(tz);
    if (m.bitLength() > 53) return false;
    // value = m * 2^(tz - log2 d); exponent of leading bit:
    int e = m.bitLength() - 1 + tz - (x.d.bitLength() - 1);
    if (e > 1023) return false;
    int lowbit = tz - (x.d.bitLength() - 1); // exponent of lowest set bit
    return lowbit >= -1074;
  }
  // round |x| to double grid: returns {down, up} neighbours (down <= x <= up), as Q; sign preserved
  static Q[] neighbours(Q x) {
    if (!x.fin() || isDouble(x)) return new Q[]{x, x};
    boolean negv = x.n.signum() < 0; BigInteger n = x.n.abs(), d = x.d;
    // find e with 2^e <= n/d < 2^(e+1)
    int e = n.bitLength() - d.bitLength();
    if (cmpPow2(n, d, e) < 0) e--;
    int ulpExp = Math.max(e - 52, -1074);
    // q = floor(n / (d * 2^ulpExp))
    BigInteger num = n, den = d;
    if (ulpExp >= 0) den = den.shiftLeft(ulpExp); else num = num.shiftLeft(-ulpExp);
    BigInteger fl = num.divide(den);
    Q lo = ulpExp >= 0 ? new Q(fl.shiftLeft(ulpExp), ONE) : mk(fl, ONE.shiftLeft(-ulpExp));
    BigInteger ce = fl.add(ONE);
    Q hi = ulpExp >= 0 ? new Q(ce.shiftLeft(ulpExp), ONE) : mk(ce, ONE.shiftLeft(-ulpExp));
    if (e > 1023) { hi = PINF; }
    if (negv) return new Q[]{neg(hi), neg(lo)};
    return new Q[]{lo, hi};
  }
  static int cmpPow2(BigInteger n, BigInteger d, int e) { // compare n/d with 2^e
    return e >= 0 ? n.compareTo(d.shiftLeft(e)) : n.shiftLeft(-e).compareTo(d);
  }
  static Q nearest(Q x) { // round to nearest, ties to even
    Q[] nb = neighbours(x); if (cmp(nb[0], nb[1]) == 0) return nb[0];
    if (!nb[1].fin()) { // overflow region: compare with DBL_MAX + half ulp
      return nb[0]; }
    if (!nb[0].fin()) return nb[1];
    Q dl = add(x, neg(nb[0])), du = add(nb[1], neg(x)); int c = cmp(dl, du);
    if (c < 0) return nb[0]; if (c > 0) return nb[1];
    // tie: even mantissa
    Q lo = nb[0]; BigInteger m = lo.n.abs(); int tz = m.signum() == 0 ? 1 : m.getLowestSetBit();
    // lo = m/2^k; mantissa integer at ulp scale: ulp = hi - lo
    Q ulp = add(nb[1], neg(nb[0])); Q k = mul(lo, inv(ulp)); // integer
    return k.n.testBit(0) ? nb[1] : nb[0];
  }
  public static Value BRIsDouble(final Value a) { return B(isDouble(q(a))); }
  // r is one of the two doubles enclosing q (r = q if q is a double)
  public static Value BRAdjacentDouble(final Value qv, final Value rv) {
    Q x = q(qv), r = q(rv); if (isnan(x) || isnan(r)) return B(false);
    if (!x.fin() || !r.fin()) return B(cmp(x, r) == 0);
    if (!isDouble(r)) return B(false);
    Q[] nb = neighbours(x); return B(cmp(nb[0], r) == 0 || cmp(nb[1], r) == 0);
  }
  public static Value BRNearestDouble(final Value a) { return V(nearest(q(a))); }
  public static Value BRRoundDown(final Value a) { return V(neighbours(q(a))[0]); }
  public static Value BRRoundUp(final Value a) { return V(neighbours(q(a))[1]); }
  // truncation toward zero (what mpq_get_d does)
  public static Value BRTruncDouble(final Value a) { Q x = q(a); Q[] nb = neighbours(x); return V(x.sgn() >= 0 ? nb[0] : nb[1]); }

  // ---- literals:  sign? digits? (. digits)? ([eE] sign? digits)?  |  int/int ; returns "nan" if malformed
  static Q fromDecimal(String t) {
    try {
      t = t.trim(); if (t.isEmpty()) return NAN;
      int sl = t.indexOf('/');
      if (sl >= 0) { String a = t.substring(0, sl), b = t.substring(sl + 1);
        if (a.startsWith("+")) a = a.substring(1);
        BigInteger n = new BigInteger(a), d = new BigInteger(b); return mk(n, d); }
      String lo = t.toLowerCase();
      if (lo.equals("inf") || lo.equals("+inf") || lo.equals("infinity") || lo.equals("+infinity")) return PINF;
      if (lo.equals("-inf") || lo.equals("-infinity")) return NINF;
      int i = 0; boolean ng = false;
      if (t.charAt(i) == '+' || t.charAt(i) == '-') { ng = t.charAt(i) == '-'; i++; }
      StringBuilder dig = new StringBuilder(); int fracDigits = 0; boolean any = false;
      while (i < t.length() && Character.isDigit(t.charAt(i))) { dig.append(t.charAt(i++)); any = true; }
      if (i < t.length() && t.charAt(i) == '.') { i++; while (i < t.length() && Character.isDigit(t.charAt(i))) { dig.append(t.charAt(i++)); fracDigits++; any = true; } }
      if (!any) return NAN;
      int ex = 0;
      if (i < t.length() && (t.charAt(i) == 'e' || t.charAt(i) == 'E')) { i++; boolean en = false;
        if (i < t.length() && (t.charAt(i) == '+' || t.charAt(i) == '-')) { en = t.charAt(i) == '-'; i++; }
        int st = i; while (i < t.length() && Character.isDigit(t.charAt(i))) i++;
        if (st == i) return NAN; ex = Integer.parseInt(t.substring(st, i)); if (en) ex = -ex; }
      if (i != t.length()) return NAN;
      BigInteger n = new BigInteger(dig.toString()); if (ng) n = n.negate();
      int p = ex - fracDigits;
      return p >= 0 ? new Q(n.multiply(TEN.pow(p)), ONE) : mk(n, TEN.pow(-p));
    } catch (Exception e) { return NAN; }
  }
  public static Value BRFromDecimal(final Value a) { return V(fromDecimal(s(a))); }

  // ---- linear algebra (matrix = sequence of rows, each a sequence of strings)
  static Q[][] mat(Value m) { Value[] rows = T(m); Q[][] r = new Q[rows.length][]; for (int i = 0; i < rows.length; i++) { Value[] e = T(rows[i]); r[i] = new Q[e.length]; for (int j = 0; j < e.length; j++) r[i][j] = q(e[j]); } return r; }
  static Q det(Q[][] a) {
    int n = a.length; if (n == 0) return QONE; Q d = QONE;
    for (int c = 0; c < n; c++) { int p = -1; for (int r = c; r < n; r++) if (a[r][c].sgn() != 0) { p = r; break; }
      if (p < 0) return QZERO; if (p != c) { Q[] t = a[p]; a[p] = a[c]; a[c] = t; d = neg(d); }
      d = mul(d, a[c][c]); Q ip = inv(a[c][c]);
      for (int r = c + 1; r < n; r++) { if (a[r][c].sgn() == 0) continue; Q f = mul(a[r][c], ip);
        for (int k = c; k < n; k++) if (a[c][k].sgn() != 0) a[r][k] = add(a[r][k], neg(mul(f, a[c][k]))); } }
    return d;
  }
  public static Value BRDet(final Value m) { Q[][] a = mat(m); for (Q[] r : a) if (r.length != a.length) return V(NAN); return V(det(a)); }
  // solve M x = b ; returns <<>> if singular
  public static Value BRSolve(final Value m, final Value bv) {
    Q[][] a = mat(m); int n = a.length; Value[] be = T(bv); if (be.length != n) return new TupleValue(new Value[0]);
    Q[] b = new Q[n]; for (int i = 0; i < n; i++) b[i] = q(be[i]);
    for (int c = 0; c < n; c++) { int p = -1; for (int r = c; r < n; r++) if (a[r][c].sgn() != 0) { p = r; break; }
      if (p < 0) return new TupleValue(new Value[0]);
      if (p != c) { Q[] t = a[p]; a[p] = a[c]; a[c] = t; Q tb = b[p]; b[p] = b[c]; b[c] = tb; }
      Q ip = inv(a[c][c]);
      for (int r = 0; r < n; r++) { if (r == c || a[r][c].sgn() == 0) continue; Q f = mul(a[r][c], ip);
        for (int k = c; k < n; k++) if (a[c][k].sgn() != 0) a[r][k] = add(a[r][k], neg(mul(f, a[c][k])));
        b[r] = add(b[r], neg(mul(f, b[c]))); } }
    Value[] x = new Value[n]; for (int i = 0; i < n; i++) x[i] = V(mul(b[i], inv(a[i][i])));
    return new TupleValue(x);
  }
  // M * v   and   v^T * M  (dense)
  public static Value BRMatVec(final Value m, final Value v) {
    Q[][] a = mat(m); Value[] ve = T(v); Value[] out = new Value[a.length];
    for (int i = 0; i < a.length; i++) { Q r = QZERO; for (int j = 0; j < a[i].length; j++) if (a[i][j].sgn() != 0) r = add(r, mul(a[i][j], q(ve[j]))); out[i] = V(r); }
    return new TupleValue(out);
  }
  public static Value BRVecMat(final Value v, final Value m) {
    Q[][] a = mat(m); Value[] ve = T(v); int nc = a.length == 0 ? 0 : a[0].length; Value[] out = new Value[nc];
    for (int j = 0; j < nc; j++) { Q r = QZERO; for (int i = 0; i < a.length; i++) if (a[i][j].sgn() != 0) r = add(r, mul(a[i][j], q(ve[i]))); out[j] = V(r); }
    return new TupleValue(out);
  }
}
