----------------------------- MODULE BasisFile -----------------------------
(***************************************************************************)
(* MPS basis files (C14): transcription of SPxBasisBase::writeBasis /        *)
(* readBasis and of the repair rules of SPxBasisBase::loadDesc.              *)
(*   XU col row : col basic, row nonbasic at upper   UL col : col at upper   *)
(*   XL col row : col basic, row nonbasic at lower   LL col : col at lower   *)
(* The k-th basic column is paired with the k-th nonbasic row.               *)
(* An LP enters only through its bound/side pattern:                         *)
(*   lpt == [rows : Seq([lf, uf, eq]), cols : Seq([lf, uf, eq, objNonPos])]  *)
(*   (lf/uf: lower/upper finite, eq: lower = upper)                          *)
(* statuses: 0 ON_UPPER 1 ON_LOWER 2 FIXED 3 ZERO 4 BASIC                     *)
(***************************************************************************)
EXTENDS Integers, Sequences, FiniteSets

ON_UPPER == 0  ON_LOWER == 1  FIXED == 2  ZERO == 3  BASIC == 4
\* LPRowBase::Type as computed by LPRowSetBase::type(): 0 LESS_EQUAL 1 EQUAL 2 GREATER_EQUAL 3 RANGE
RowTypeOf(r) == IF ~r.uf THEN 2 ELSE IF ~r.lf THEN 0 ELSE IF r.eq THEN 1 ELSE 3

\* loadDesc: repair of a nonbasic status against the bounds
Repair(v, st) == IF st = BASIC THEN BASIC
                 ELSE IF v.lf /\ v.uf /\ v.eq THEN FIXED
                 ELSE IF v.lf /\ (~v.uf \/ st = ON_LOWER \/ (st # ON_UPPER /\ v.objNonPos)) THEN ON_LOWER
                 ELSE IF v.uf THEN ON_UPPER
                 ELSE ZERO
ValidStat(v, st) == CASE st = BASIC -> TRUE [] st = ON_UPPER -> v.uf /\ ~(v.lf /\ v.eq) [] st = ON_LOWER -> v.lf /\ ~(v.uf /\ v.eq)
                      [] st = FIXED -> v.lf /\ v.uf /\ v.eq [] st = ZERO -> ~v.lf /\ ~v.uf [] OTHER -> FALSE
NumBasic(br, bc) == Cardinality({i \in 1..Len(br) : br[i] = BASIC}) + Cardinality({j \in 1..Len(bc) : bc[j] = BASIC})
ValidBasis(lpt, br, bc) == /\ Len(br) = Len(lpt.rows) /\ Len(bc) = Len(lpt.cols) /\ NumBasic(br, bc) = Len(lpt.rows)
                           /\ \A i \in 1..Len(br) : ValidStat([lpt.rows[i] EXCEPT !.objNonPos = TRUE], br[i])
                           /\ \A j \in 1..Len(bc) : ValidStat(lpt.cols[j], bc[j])

\* ---- writer: records <<kind, col0, row0>> (row0 = -1 for UL/LL), 0-based indices
RECURSIVE WriteFrom(_, _, _, _, _, _)
WriteFrom(lpt, br, bc, cpx, col, row) ==
   IF col > Len(bc) THEN <<>>
   ELSE IF bc[col] = BASIC THEN
        LET nb == {r \in row..Len(br) : br[r] # BASIC} IN
        IF nb = {} THEN <<<<"??", col - 1, -1>>>>              \* invalid basis: more basic columns than nonbasic rows
        ELSE LET r == CHOOSE r \in nb : \A q \in nb : r <= q
                 kind == IF br[r] = ON_UPPER /\ (~cpx \/ RowTypeOf(lpt.rows[r]) = 3) THEN "XU" ELSE "XL"
             IN <<<<kind, col - 1, r - 1>>>> \o WriteFrom(lpt, br, bc, cpx, col + 1, r + 1)
   ELSE IF bc[col] = ON_UPPER THEN <<<<"UL", col - 1, -1>>>> \o WriteFrom(lpt, br, bc, cpx, col + 1, row)
   ELSE WriteFrom(lpt, br, bc, cpx, col + 1, row)
WriteBas(lpt, br, bc, cpx) == WriteFrom(lpt, br, bc, cpx, 1, 1)

\* ---- reader: defaults, then one update per record, then loadDesc repair
DefaultCol(v) == IF v.lf /\ v.uf /\ v.eq THEN FIXED ELSE IF ~v.lf /\ ~v.uf THEN ZERO ELSE IF ~v.lf THEN ON_UPPER ELSE ON_LOWER
RowOnXU(r) == LET t == RowTypeOf(r) IN IF t = 2 THEN ON_LOWER ELSE IF t = 1 THEN FIXED ELSE ON_UPPER
RowOnXL(r) == LET t == RowTypeOf(r) IN IF t = 0 THEN ON_UPPER ELSE IF t = 1 THEN FIXED ELSE ON_LOWER
RECURSIVE ReadFold(_, _, _)
ReadFold(lpt, recs, b) ==
   IF recs = <<>> THEN b
   ELSE LET rc == Head(recs)  c == rc[2] + 1  r == rc[3] + 1 IN
        ReadFold(lpt, Tail(recs),
           CASE rc[1] = "XU" -> [rows |-> [b.rows EXCEPT ![r] = RowOnXU(lpt.rows[r])], cols |-> [b.cols EXCEPT ![c] = BASIC]]
             [] rc[1] = "XL" -> [rows |-> [b.rows EXCEPT ![r] = RowOnXL(lpt.rows[r])], cols |-> [b.cols EXCEPT ![c] = BASIC]]
             [] rc[1] = "UL" -> [b EXCEPT !.cols[c] = ON_UPPER]
             [] rc[1] = "LL" -> [b EXCEPT !.cols[c] = ON_LOWER]
             [] OTHER -> b)
ReadBas(lpt, recs) ==
   LET b0 == [rows |-> [i \in 1..Len(lpt.rows) |-> BASIC], cols |-> [j \in 1..Len(lpt.cols) |-> DefaultCol(lpt.cols[j])]]
       b1 == ReadFold(lpt, recs, b0)
       b2 == [rows |-> [i \in 1..Len(lpt.rows) |-> Repair([lpt.rows[i] EXCEPT !.objNonPos = TRUE], b1.rows[i])],
              cols |-> [j \in 1..Len(lpt.cols) |-> Repair(lpt.cols[j], b1.cols[j])]]
   IN \* a descriptor with the wrong number of basic variables is replaced by the slack basis (loadDesc -> restoreInitialBasis)
      IF NumBasic(b2.rows, b2.cols) = Len(lpt.rows) THEN b2 ELSE [rows |-> [i \in 1..Len(lpt.rows) |-> BASIC], cols |-> [j \in 1..Len(lpt.cols) |-> "slack"]]
=============================================================================
