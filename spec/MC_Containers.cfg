CONSTANTS KeySpace = {0, 1, 2, 3}
MaxLen = 3
MaxStamp = 5
SPECIFICATION Spec
INVARIANT KeysAreDistinct
INVARIANT NoDuplicateElement
INVARIANT DenseNumbering
PROPERTY KeyStaysWithElement
PROPERTY NothingInvented
PROPERTY SingleRemovalMovesLast
CHECK_DEADLOCK FALSE
