------------------------------- MODULE BigRat -------------------------------
(***************************************************************************)
(* Exact rational arithmetic for the SoPlex specification suite.           *)
(*                                                                         *)
(* Values are strings: "n" or "n/d" (normalised, d > 1, gcd(n,d) = 1),     *)
(* "inf", "-inf", "nan".  TLC integers are 32 bit and the JSON reader      *)
(* wraps silently, so numbers never enter a spec as TLA+ integers.         *)
(*                                                                         *)
(* Each operator BRx has                                                   *)
(*   - a pure TLA+ definition BRxDef on <<num, den>> pairs, which is its   *)
(*     MEANING and is executable on a small grid, and                      *)
(*   - a Java override (BigRat.java, java.math.BigInteger) that TLC loads  *)
(*     from BigRat.class next to this module.                              *)
(* MC_BigRat checks override = definition on the grid.                     *)
(***************************************************************************)
EXTENDS Integers, Sequences, TLC

-----------------------------------------------------------------------------
\* meaning on pairs <<n, d>>, d > 0
RECURSIVE Gcd(_, _)
Gcd(a, b) == IF b = 0 THEN (IF a < 0 THEN -a ELSE a) ELSE Gcd(b, a % b)
IAbs(a) == IF a < 0 THEN -a ELSE a
QNorm(p) == LET n == IF p[2] < 0 THEN -p[1] ELSE p[1]
                d == IAbs(p[2])
                g == Gcd(IAbs(n), d)
            IN IF g = 0 THEN <<0, 1>> ELSE <<n \div g, d \div g>>
QAdd(p, r) == QNorm(<<p[1] * r[2] + r[1] * p[2], p[2] * r[2]>>)
QNeg(p)    == <<-p[1], p[2]>>
QSub(p, r) == QAdd(p, QNeg(r))
QMul(p, r) == QNorm(<<p[1] * r[1], p[2] * r[2]>>)
QInv(p)    == QNorm(<<p[2], p[1]>>)
QLeq(p, r) == p[1] * r[2] <= r[1] * p[2]
QLt(p, r)  == p[1] * r[2] < r[1] * p[2]
QStr(p)    == IF p[2] = 1 THEN ToString(p[1]) ELSE ToString(p[1]) \o "/" \o ToString(p[2])

\* the grid on which the definitions are executable (string -> pair by search)
GridN == 40
Grid == { QNorm(<<n, d>>) : n \in (-GridN)..GridN, d \in 1..12 }
QOf(s) == CHOOSE p \in Grid : QStr(p) = s
InGrid(s) == \E p \in Grid : QStr(p) = s

BRAddDef(a, b) == QStr(QAdd(QOf(a), QOf(b)))
BRSubDef(a, b) == QStr(QSub(QOf(a), QOf(b)))
BRMulDef(a, b) == QStr(QMul(QOf(a), QOf(b)))
BRDivDef(a, b) == QStr(QMul(QOf(a), QInv(QOf(b))))
BRNegDef(a)    == QStr(QNeg(QOf(a)))
BRAbsDef(a)    == LET p == QOf(a) IN QStr(<<IAbs(p[1]), p[2]>>)
BRLeqDef(a, b) == QLeq(QOf(a), QOf(b))
BRLtDef(a, b)  == QLt(QOf(a), QOf(b))
BREqDef(a, b)  == QOf(a) = QOf(b)
BRSignDef(a)   == LET n == QOf(a)[1] IN IF n < 0 THEN -1 ELSE IF n > 0 THEN 1 ELSE 0
RECURSIVE QSumSeq(_)
QSumSeq(s) == IF s = <<>> THEN <<0, 1>> ELSE QAdd(Head(s), QSumSeq(Tail(s)))
BRSumDef(s) == QStr(QSumSeq([i \in 1..Len(s) |-> QOf(s[i])]))
BRDotDef(x, y) == QStr(QSumSeq([i \in 1..Len(x) |-> QMul(QOf(x[i]), QOf(y[i]))]))
RECURSIVE IPow(_, _)
IPow(b, e) == IF e = 0 THEN 1 ELSE b * IPow(b, e - 1)
BRPow2Def(e) == IF e >= 0 THEN QStr(<<IPow(2, e), 1>>) ELSE QStr(<<1, IPow(2, -e)>>)
\* a grid value is a double iff its denominator is a power of two (numerators on the grid are < 2^53)
BRIsDoubleDef(a) == LET d == QOf(a)[2] IN \E k \in 0..4 : d = IPow(2, k)
\* determinant by Laplace expansion on pairs
RECURSIVE QDet(_)
QMinor(M, cc) == LET d == Len(M) IN
   [i \in 1..(d-1) |-> [j \in 1..(d-1) |-> M[i+1][IF j < cc THEN j ELSE j+1]]]
QDet(M) == LET d == Len(M) IN
   IF d = 0 THEN <<1, 1>> ELSE IF d = 1 THEN M[1][1]
   ELSE QSumSeq([j \in 1..d |-> LET t == QMul(M[1][j], QDet(QMinor(M, j))) IN
                                  IF j % 2 = 1 THEN t ELSE QNeg(t)])
BRDetDef(M) == QStr(QDet([i \in 1..Len(M) |-> [j \in 1..Len(M[i]) |-> QOf(M[i][j])]]))

-----------------------------------------------------------------------------
\* the operators used by the specifications (overridden by BigRat.class)
BRNorm(a)    == a
BRAdd(a, b)  == BRAddDef(a, b)
BRSub(a, b)  == BRSubDef(a, b)
BRMul(a, b)  == BRMulDef(a, b)
BRDiv(a, b)  == BRDivDef(a, b)
BRNeg(a)     == BRNegDef(a)
BRAbs(a)     == BRAbsDef(a)
BRLeq(a, b)  == BRLeqDef(a, b)
BRLt(a, b)   == BRLtDef(a, b)
BREq(a, b)   == BREqDef(a, b)
BRMin(a, b)  == IF BRLeqDef(a, b) THEN a ELSE b
BRMax(a, b)  == IF BRLeqDef(a, b) THEN b ELSE a
BRSign(a)    == BRSignDef(a)
BRIsFinite(a) == a \notin {"inf", "-inf", "nan"}
BRIsNan(a)   == a = "nan"
BRInt(i)     == ToString(i)
BRFrac(n, d) == QStr(QNorm(<<n, d>>))
BRPow2(e)    == BRPow2Def(e)
BRPow10(e)   == IF e >= 0 THEN QStr(<<IPow(10, e), 1>>) ELSE QStr(<<1, IPow(10, -e)>>)
BRMulPow2(a, e) == BRMulDef(a, BRPow2Def(e))
BRSum(s)     == BRSumDef(s)
BRSumAbs(s)  == BRSumDef([i \in 1..Len(s) |-> BRAbsDef(s[i])])
BRMaxAbs(s)  == LET RECURSIVE H(_)
                    H(t) == IF t = <<>> THEN "0" ELSE LET r == H(Tail(t)) a == BRAbsDef(Head(t)) IN IF BRLeqDef(r, a) THEN a ELSE r
                IN H(s)
BRDot(x, y)  == BRDotDef(x, y)
BRDotAbs(x, y) == BRSumDef([i \in 1..Len(x) |-> BRAbsDef(BRMulDef(x[i], y[i]))])
\* sparse vector: sequence of <<index0, value>>; dense: sequence
BRSpDot(sp, y)    == BRSumDef([k \in 1..Len(sp) |-> BRMulDef(sp[k][2], y[sp[k][1] + 1])])
BRSpDotAbs(sp, y) == BRSumDef([k \in 1..Len(sp) |-> BRAbsDef(BRMulDef(sp[k][2], y[sp[k][1] + 1]))])
BRIsDouble(a) == BRIsDoubleDef(a)
\* r is a double and no double lies strictly between q and r  (definition by override only: needs 53-bit reasoning)
BRAdjacentDouble(q, r) == q = r
BRNearestDouble(a) == a
BRRoundDown(a) == a
BRRoundUp(a) == a
BRTruncDouble(a) == a
BRFromDecimal(str) == str
BRDet(M)     == BRDetDef(M)
BRSolve(M, b) == <<>>
BRMatVec(M, v) == [i \in 1..Len(M) |-> BRDotDef(M[i], v)]
BRVecMat(v, M) == IF M = <<>> THEN <<>> ELSE [j \in 1..Len(M[1]) |-> BRDotDef(v, [i \in 1..Len(M) |-> M[i][j]])]
=============================================================================
