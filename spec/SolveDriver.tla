----------------------------- MODULE SolveDriver -----------------------------
(***************************************************************************)
(* The control logic of one floating-point optimize() call                 *)
(* (src/soplex/solvereal.hpp): _optimize -> _preprocessAndSolveReal ->     *)
(* _evaluateSolutionReal / _storeSolutionReal / _verifySolutionReal /      *)
(* _verifyObjLimitReal / _resolveWithoutPreprocessing, which re-enter      *)
(* _preprocessAndSolveReal(false) at eight sites.  The numbers are         *)
(* abstracted away; what is kept is the pushdown of frames, the flags the  *)
(* branches test, and the interrupt pointer.                               *)
(*                                                                         *)
(* One source of truth, two uses:                                          *)
(*   Fails(st, e) / After(st, e)    the transition rules over EVENTS       *)
(*   TV  (TV_API, field "frames" of every optimize event, recorded by hook *)
(*        H1): Accepts(frames) folds the rules over the recorded events;   *)
(*        a recorded event that breaks a rule is a violation.              *)
(*   MC  (MC_SolveDriver.tla): MCNext explores every outcome of every      *)
(*        frame under the same rules plus CodeDoes (how the code sets the  *)
(*        flags the rules leave open) and checks                           *)
(*          Bounded          the re-solve recursion never exceeds MaxDepth *)
(*          InterruptReaches every frame / simplex call gets the pointer   *)
(*                           the caller gave to optimize()                 *)
(*          ReturnsLoaded    optimize() returns with the user's LP loaded  *)
(* Design = "dropped" is the tree before fix 8fa9fd3 (nested re-solves ran *)
(* without the interrupt pointer): negative control (MC_SolveDriverOld).   *)
(***************************************************************************)
EXTENDS Integers, Sequences, FiniteSets, TLC

CONSTANTS MaxDepth, Design

\* solver / simplifier result codes (SPxSolverBase::Status, SPxSimplifier::Result)
OPTIMAL == 1  UNBOUNDED == 2  INFEASIBLE == 3  INFORUNBD == 4
ABORT_CYCLING == -8  ABORT_TIME == -7  ABORT_ITER == -6  ABORT_VALUE == -5  SINGULAR == -4  ERROR == -15
REGULAR == -2  RUNNING == -1  UNKNOWN == 0
SolverStatuses == {OPTIMAL, UNBOUNDED, INFEASIBLE, INFORUNBD, ABORT_CYCLING, ABORT_TIME, ABORT_ITER, ABORT_VALUE, SINGULAR, ERROR, REGULAR, RUNNING, UNKNOWN}
S_INFEASIBLE == 1  S_DUAL_INFEASIBLE == 2  S_UNBOUNDED == 3  S_VANISHED == 4
PresolveVerdicts == {S_INFEASIBLE, S_DUAL_INFEASIBLE, S_UNBOUNDED, S_VANISHED}

\* re-solve sites (first argument of the "resolve" event)
SITE_RAY == 1        \* simplifier decided infeasible/unbounded and ENSURERAY: solve again for the proof
SITE_POLISH == 2     \* OPTIMAL after presolve: polish on the original problem
SITE_SINGULAR == 3   \* SINGULAR with preprocessing: try without
SITE_NOPREP == 4     \* UNBOUNDED/INFEASIBLE with preprocessing and ENSURERAY: _resolveWithoutPreprocessing
SITE_VERIFY == 5     \* unsimplified / unscaled solution violates the tolerances
SITE_OBJLIMIT == 6   \* objective-limit verdict is not dual feasible after unscaling
SITE_UNSIMPEXC == 7  \* exception in unsimplify
SITE_VANISHEXC == 8  \* exception in unsimplify of a VANISHED problem
Sites == 1..8

\* ---- state: the caller's facts and the stack of frames (top = last)
\* phase of a frame: "entered" -> "solving" -> "solved" | "entered" -> "presolved";
\*                   then any number of ("resolving" -> [nested frame] -> "resumed"), then popped by "ret"
NewFrame(applySimp, scaledIn, limitOff) ==
   [applySimp |-> applySimp, scaledIn |-> scaledIn, limitOff |-> limitOff, simp |-> FALSE, scal |-> FALSE, limit |-> FALSE,
    phase |-> "entered", verdict |-> 0, status |-> UNKNOWN, sites |-> {}, childScaledIn |-> FALSE, childLimitOff |-> FALSE]
Idle == [running |-> FALSE, intr |-> FALSE, hasBasis |-> FALSE, objlim |-> FALSE, ensureray |-> FALSE,
         stack |-> <<>>, bad |-> {}, maxdepth |-> 0, loaded |-> TRUE, realIsSolver |-> TRUE]

Depth(st) == Len(st.stack)
Top(st) == st.stack[Len(st.stack)]
SetTop(st, f) == [st EXCEPT !.stack = [st.stack EXCEPT ![Len(st.stack)] = f]]
Bit(b) == IF b THEN 1 ELSE 0

\* events = the hook's arguments: [e |-> name, d |-> depth, a, b, c, x]
Ev(name, d, a, b, c, x) == [e |-> name, d |-> d, a |-> a, b |-> b, c |-> c, x |-> x]

(* every rule yields the NAMES of the demands an event violates; {} = the event is a step of the specification *)
Chk(name, cond) == IF cond THEN {} ELSE {name}
Prep(f) == f.simp \/ (f.scal /\ ~f.scaledIn)       \* this frame solved a transformed copy (presolved or internally scaled)

Fails(st, e) ==
   CASE e.e = "optimize" -> Chk("OptimizeWhileRunning", ~st.running)
     [] e.e = "frame" ->
          Chk("FrameOutsideOptimize", st.running)
          \cup Chk("FrameDepth", e.d = Depth(st) + 1)
          \cup Chk("Bounded", e.d <= MaxDepth)
          \* the first frame presolves iff there is no basis and no objective limit; re-solves never presolve
          \cup Chk("ApplySimplifierRule", e.a = (IF Depth(st) = 0 THEN Bit(~st.hasBasis /\ ~st.objlim) ELSE 0))
          \cup Chk("InterruptReaches", e.b = Bit(st.intr))
          \cup Chk("FrameAfterResolveOnly", Depth(st) = 0 \/ Top(st).phase = "resolving")
     [] e.e = "solve" ->
          IF Depth(st) = 0 \/ e.d # Depth(st) THEN {"SolveOutsideFrame"} ELSE
          Chk("SolveOnce", Top(st).phase = "entered")
          \cup Chk("InterruptReaches", e.a = Bit(st.intr))
          \cup Chk("SimplifierOnlyIfApplied", e.b = 1 => Top(st).applySimp)
          \* a scaler in a frame that does not preprocess is the persistent one (the stored LP is scaled)
          \cup Chk("ScalerOnlyIfAppliedOrPersistent", e.c = 1 => (Top(st).applySimp \/ Top(st).scaledIn))
          \* the objective limit is in force iff the user set one and the caller did not switch it off for this solve
          \cup Chk("ObjLimitInForce", e.x = Bit(st.objlim /\ ~Top(st).limitOff))
     [] e.e = "solved" ->
          IF Depth(st) = 0 \/ e.d # Depth(st) THEN {"SolvedOutsideFrame"} ELSE
          Chk("SolvedAfterSolve", Top(st).phase = "solving")
          \cup Chk("StatusCode", e.a \in SolverStatuses)
          \cup Chk("AbortValueOnlyWithLimit", e.a = ABORT_VALUE => Top(st).limit)
     [] e.e = "presolved" ->
          IF Depth(st) = 0 \/ e.d # Depth(st) THEN {"PresolvedOutsideFrame"} ELSE
          Chk("PresolvedOnlyIfApplied", Top(st).phase = "entered" /\ Top(st).applySimp)
          \cup Chk("PresolveVerdict", e.a \in PresolveVerdicts)
     [] e.e = "resolve" ->
          IF Depth(st) = 0 \/ e.d # Depth(st) THEN {"ResolveOutsideFrame"} ELSE
          LET f == Top(st)  site == e.a  loadedNow == e.x \div 2 = 1  scaledNow == e.x % 2 = 1 IN
          Chk("ResolveAfterOutcome", f.phase \in {"solved", "presolved", "resumed"})
          \cup Chk("SiteCode", site \in Sites)
          \cup Chk("SiteOnce", site \notin f.sites)
          \cup (CASE site = SITE_RAY -> Chk("Site:Ray", f.verdict \in {S_INFEASIBLE, S_DUAL_INFEASIBLE, S_UNBOUNDED} /\ st.ensureray)
                 [] site = SITE_POLISH -> Chk("Site:Polish", f.status = OPTIMAL /\ f.simp /\ f.sites \subseteq {})
                 [] site = SITE_SINGULAR -> Chk("Site:Singular", f.status = SINGULAR /\ Prep(f))
                 [] site = SITE_NOPREP -> Chk("Site:NoPrep", f.status \in {UNBOUNDED, INFEASIBLE, INFORUNBD} /\ st.ensureray /\ Prep(f))
                 \* verification looks at the user's LP (loaded) and removes persistent scaling before the nested solve; it is
                 \* only due when this frame presolved or scaled (otherwise there is nothing that could have been undone wrongly)
                 \* (a problem that VANISHED in presolve counts as solved to optimality: _storeSolutionRealFromPresol verifies too)
                 [] site = SITE_VERIFY -> Chk("Site:Verify", (f.status \in {OPTIMAL, ABORT_CYCLING} \/ f.verdict = S_VANISHED) /\ (Prep(f) \/ f.scaledIn) /\ loadedNow /\ ~scaledNow)
                 [] site = SITE_OBJLIMIT -> Chk("Site:ObjLimit", f.status = ABORT_VALUE /\ loadedNow /\ ~scaledNow)
                 [] site = SITE_UNSIMPEXC -> Chk("Site:UnsimplifyException", f.simp /\ f.phase = "solved")
                 [] site = SITE_VANISHEXC -> Chk("Site:VanishedException", f.verdict = S_VANISHED)
                 [] OTHER -> {})
     [] e.e = "ret" ->
          IF Depth(st) = 0 \/ e.d # Depth(st) THEN {"RetOutsideFrame"} ELSE
          Chk("RetAfterOutcome", Top(st).phase \in {"solved", "presolved", "resumed"})
          \* whatever happened inside, a frame hands back the user's LP inside the solver
          \cup Chk("ReturnsLoaded", e.a = 1 /\ e.b = 1)
     [] OTHER -> {"UnknownEvent"}

After(st, e) ==
   CASE e.e = "optimize" -> [Idle EXCEPT !.running = TRUE, !.hasBasis = (e.a = 1), !.objlim = (e.b = 1), !.intr = (e.c = 1), !.ensureray = (e.x = 1)]
     [] e.e = "frame" ->
          LET off == IF Depth(st) = 0 THEN FALSE ELSE Top(st).childLimitOff IN
          [st EXCEPT !.stack = Append(st.stack, NewFrame(e.a = 1, e.x % 2 = 1, off)), !.maxdepth = IF e.d > st.maxdepth THEN e.d ELSE st.maxdepth]
     [] e.e = "solve" -> SetTop(st, [Top(st) EXCEPT !.phase = "solving", !.simp = (e.b = 1), !.scal = (e.c = 1), !.limit = (e.x = 1)])
     [] e.e = "solved" -> SetTop(st, [Top(st) EXCEPT !.phase = "solved", !.status = e.a])
     [] e.e = "presolved" -> SetTop(st, [Top(st) EXCEPT !.phase = "presolved", !.verdict = e.a, !.simp = TRUE])
     [] e.e = "resolve" ->
          \* _verifyObjLimitReal switches the limit off for the nested solve when there is nothing left to undo (no simplifier, no scaler)
          SetTop(st, [Top(st) EXCEPT !.phase = "resolving", !.sites = @ \cup {e.a},
                                     !.childScaledIn = (e.x % 2 = 1), !.childLimitOff = (e.a = SITE_OBJLIMIT /\ e.b = 0 /\ e.c = 0)])
     [] e.e = "ret" ->
          LET rest == SubSeq(st.stack, 1, Len(st.stack) - 1) IN
          IF Len(rest) = 0 THEN [st EXCEPT !.stack = rest, !.running = FALSE, !.loaded = (e.a = 1), !.realIsSolver = (e.b = 1)]
          ELSE [st EXCEPT !.stack = [rest EXCEPT ![Len(rest)] = [rest[Len(rest)] EXCEPT !.phase = "resumed"]]]
     [] OTHER -> st

\* ---- TV: fold over the recorded events of one optimize() call; the result names the demands the first offending event violates
RECURSIVE Run(_, _, _)
Run(st, evs, i) == IF i > Len(evs) THEN (IF st.running THEN {"OptimizeDidNotReturn"} ELSE {})
                   ELSE IF Fails(st, evs[i]) # {} THEN Fails(st, evs[i])
                   ELSE Run(After(st, evs[i]), evs, i + 1)
\* frames: sequence of <<name, depth, a, b, c, x>> as logged by the harness for one optimize() call
Accepts(frames) == Run(Idle, [k \in 1..Len(frames) |-> Ev(frames[k][1], frames[k][2], frames[k][3], frames[k][4], frames[k][5], frames[k][6])], 1)
=============================================================================
