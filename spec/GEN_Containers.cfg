INIT Init
NEXT Next
POSTCONDITION WroteAll
CHECK_DEADLOCK FALSE
