SPECIFICATION Spec
CONSTANTS
  Thread = {t1, t2}
  MaxOps = 4
  Design = "process"
  InitialPrec = 50
  Limit = 300
INVARIANTS TypeOK Isolation
CHECK_DEADLOCK FALSE
