SPECIFICATION Spec
INVARIANT TypeOK
INVARIANT SenseIsUsed
INVARIANT SaveLoadIdentity
PROPERTY RejectedAtomically
PROPERTY OnlySenseTouchesLP
PROPERTY ObjectsIndependent
CHECK_DEADLOCK FALSE
