----------------------------- MODULE MC_BigRat -----------------------------
(* override = definition on a grid of small values; the trusted base of the exact oracle *)
EXTENDS BigRat, FiniteSets
Pairs == { QNorm(<<n, d>>) : n \in -5..5, d \in {1, 2, 3, 4, 6} }
VARIABLES pa, pb, done
a == QStr(pa)
b == QStr(pb)
S(p) == QStr(p)
Init == pa \in Pairs /\ pb \in Pairs /\ done = FALSE
Next == done = FALSE /\ done' = TRUE /\ UNCHANGED <<pa, pb>>
M2 == <<<<pa, pb>>, <<<<1, 1>>, pa>>>>
M3 == <<<<pa, pb, <<1, 1>>>>, <<<<1, 1>>, pa, <<2, 1>>>>, <<pb, <<0, 1>>, pa>>>>
SM(M) == [i \in 1..Len(M) |-> [j \in 1..Len(M[i]) |-> S(M[i][j])]]
Agree ==
  /\ BRAdd(a, b) = S(QAdd(pa, pb))
  /\ BRSub(a, b) = S(QSub(pa, pb))
  /\ BRMul(a, b) = S(QMul(pa, pb))
  /\ (pb[1] # 0 => BRDiv(a, b) = S(QMul(pa, QInv(pb))))
  /\ BRNeg(a) = S(QNeg(pa)) /\ BRAbs(a) = S(<<IAbs(pa[1]), pa[2]>>)
  /\ BRLeq(a, b) = QLeq(pa, pb) /\ BRLt(a, b) = QLt(pa, pb) /\ BREq(a, b) = (pa = pb)
  /\ BRSign(a) = (IF pa[1] < 0 THEN -1 ELSE IF pa[1] > 0 THEN 1 ELSE 0)
  /\ BRIsDouble(a) = (pa[2] \in {1, 2, 4})
  /\ BRDot(<<a, b, "1/2">>, <<b, "2", a>>) = S(QSumSeq(<<QMul(pa, pb), QMul(pb, <<2, 1>>), QMul(<<1, 2>>, pa)>>))
  /\ BRSum(<<a, b, a>>) = S(QSumSeq(<<pa, pb, pa>>))
  /\ BRDet(SM(M2)) = S(QDet(M2))
  /\ BRDet(SM(M3)) = S(QDet(M3))
  /\ BRSpDot(<<<<0, a>>, <<2, b>>>>, <<b, "7", a>>) = S(QMul(<<2, 1>>, QMul(pa, pb)))
  /\ BRMatVec(SM(M2), <<"1", "2">>) = <<S(QAdd(pa, QMul(<<2, 1>>, pb))), S(QAdd(<<1, 1>>, QMul(<<2, 1>>, pa)))>>
  /\ LET x == BRSolve(SM(M2), <<"1", "2">>) IN
        IF QDet(M2)[1] = 0 THEN x = <<>> ELSE BRMatVec(SM(M2), x) = <<"1", "2">>
  /\ BRAdjacentDouble(a, BRRoundDown(a)) /\ BRAdjacentDouble(a, BRRoundUp(a))
  /\ BRLeq(BRRoundDown(a), a) /\ BRLeq(a, BRRoundUp(a)) /\ BRIsDouble(BRNearestDouble(a))
  /\ (BRIsDouble(a) => BRNearestDouble(a) = a)
  /\ BRMulPow2(a, 3) = S(QMul(pa, <<8, 1>>)) /\ BRMulPow2(a, -2) = S(QMul(pa, <<1, 4>>))
Fixed ==
  /\ BRFromDecimal("1e-1") = "1/10" /\ BRFromDecimal("-.25E+2") = "-25" /\ BRFromDecimal("3/-6") = "-1/2"
  /\ BRFromDecimal("1.5e-3") = "3/2000" /\ BRFromDecimal("abc") = "nan" /\ BRFromDecimal("12.") = "12"
  /\ BRNearestDouble("1/10") = "3602879701896397/36028797018963968"
  /\ BRTruncDouble("1/3") = "6004799503160661/18014398509481984"
  /\ BRTruncDouble("-1/3") = "-6004799503160661/18014398509481984"
  /\ BRRoundUp("1/3") = "3002399751580331/9007199254740992"
  /\ ~BRIsDouble("1/3") /\ BRIsDouble("-3/1024") /\ ~BRIsDouble("9007199254740993")
  /\ BRIsDouble("9007199254740992") /\ BRIsDouble("inf")
  /\ BRPow2(-3) = "1/8" /\ BRPow10(2) = "100" /\ BRMulPow2("3/4", 3) = "6" /\ BRMulPow2("inf", -3) = "inf"
  /\ BRLeq("-inf", "5") /\ BRLt("5", "inf") /\ ~BRLeq("nan", "1") /\ BRAdd("inf", "1") = "inf"
  /\ BRMax("1/2", "1/3") = "1/2" /\ BRMin("1/2", "-inf") = "-inf"
  /\ BRSumAbs(<<"-1/2", "1/2">>) = "1" /\ BRMaxAbs(<<"-3", "2">>) = "3"
  /\ BRVecMat(<<"1", "2">>, <<<<"1", "0", "3">>, <<"0", "1/2", "1">>>>) = <<"1", "1", "5">>
=============================================================================
