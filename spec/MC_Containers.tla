--------------------------- MODULE MC_Containers ---------------------------
(* Model checking of the keyed-set abstraction of Containers.tla (C19): every behaviour of add / remove(number) /
   remove(many, any admissible permutation) / clear over a small key space keeps keys distinct, never duplicates or
   invents an element, and a key stays with its element until that element is removed. *)
EXTENDS Containers, TLC
CONSTANTS KeySpace, MaxLen, MaxStamp
VARIABLES S, stamp, last
vars == <<S, stamp, last>>
Init == S = <<>> /\ stamp = 0 /\ last = "init"
Add == /\ Len(S) < MaxLen /\ stamp < MaxStamp
       /\ \E k \in KeySpace \ Keys(S) : S' = KAddMany(S, <<k>>, <<stamp>>)
       /\ stamp' = stamp + 1 /\ last' = "add"
AddTwo == /\ Len(S) + 2 <= MaxLen /\ stamp + 1 < MaxStamp
          /\ \E k1, k2 \in KeySpace \ Keys(S) : k1 # k2 /\ FreshKeys(S, <<k1, k2>>) /\ S' = KAddMany(S, <<k1, k2>>, <<stamp, stamp + 1>>)
          /\ stamp' = stamp + 2 /\ last' = "add2"
Remove == /\ \E i \in 1..Len(S) : S' = KRemove(S, i)
          /\ UNCHANGED stamp /\ last' = "remove"
RemoveMany == /\ Len(S) > 0
              /\ \E sel \in SUBSET (1..Len(S)) : \E perm \in [1..Len(S) -> (-1)..(Len(S) - 1)] :
                    PermOK(S, sel, perm) /\ S' = KApplyPerm(S, perm)
              /\ UNCHANGED stamp /\ last' = "removeMany"
Clear == S' = <<>> /\ UNCHANGED stamp /\ last' = "clear"
Next == Add \/ AddTwo \/ Remove \/ RemoveMany \/ Clear
Spec == Init /\ [][Next]_vars
\* invariants
KeysAreDistinct == KeysDistinct(S)
NoDuplicateElement == Cardinality({S[i].v : i \in 1..Len(S)}) = Len(S)
DenseNumbering == DOMAIN S = 1..Len(S)
\* action properties
KeyStaysWithElement == [][\A i \in 1..Len(S) : \A j \in 1..Len(S') : S[i].k = S'[j].k => S[i].v = S'[j].v]_vars
NothingInvented == [][\A j \in 1..Len(S') : (\E i \in 1..Len(S) : S[i] = S'[j]) \/ S'[j].v >= stamp]_vars
SingleRemovalMovesLast == [][last' = "remove" => \A j \in 1..Len(S') : S'[j] = S[j] \/ S'[j] = S[Len(S)]]_vars
=============================================================================
