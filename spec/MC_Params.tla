----------------------------- MODULE MC_Params -----------------------------
(***************************************************************************)
(* Exhaustive model of the parameter store (C15) for a small parameter      *)
(* table: 1 boolean, 2 integer (the objective sense: enumerated choices,     *)
(* touches the LP; a limit) and 1 real parameter, value classes             *)
(* {below, lower, inside, above, nan}, two solver objects,                  *)
(* operations Set / Parse(well-formed or malformed) / Save / Load / Reset / *)
(* CopySettings in every order.  Invariants are the clauses of C15.         *)
(***************************************************************************)
EXTENDS Integers, Sequences, FiniteSets, TLC

Objs == {1, 2}
Bools == {"b1"}
Ints == {"sense", "limit"}
Reals == {"tol"}
ParamNames == Bools \cup Ints \cup Reals
\* integer table: range and (possibly) enumerated choices
IChoices == [sense |-> {-1, 1}, limit |-> -1..1]
IntDomain == -2..2
\* real values are abstracted to classes; "nan" is a value like any other that must be rejected
RealVals == {"below", "lower", "inside", "above", "nan"}
RealOK(v) == v \in {"lower", "inside"}
Default == [b1 |-> FALSE, sense |-> 1, limit |-> -1, tol |-> "inside"]
ValueSet(p) == IF p \in Bools THEN BOOLEAN ELSE IF p \in Ints THEN IntDomain ELSE RealVals
InRange(p, v) == IF p \in Bools THEN TRUE ELSE IF p \in Ints THEN v \in IChoices[p] ELSE RealOK(v)

VARIABLES val,      \* [Objs -> [ParamNames -> value]]
          lpsense,  \* [Objs -> {-1, 1}]   what the stored LP uses
          lpdata,   \* [Objs -> Nat]       stands for everything else in the stored LP
          file,     \* last saved settings file (a partial function: only changed or all)
          last      \* ghost: last operation and whether it was accepted
vars == <<val, lpsense, lpdata, file, last>>

Init == /\ val = [o \in Objs |-> Default] /\ lpsense = [o \in Objs |-> Default.sense]
        /\ lpdata \in [Objs -> {0, 1}] /\ file = <<>> /\ last = [ok |-> TRUE, o |-> 1]

\* the typed setter = the meaning of a well-formed 'type:name=value' string
Apply(o, p, v) == /\ val' = [val EXCEPT ![o][p] = v]
                  /\ lpsense' = IF p = "sense" THEN [lpsense EXCEPT ![o] = v] ELSE lpsense
Set(o, p, v, how) ==
   /\ IF InRange(p, v) THEN Apply(o, p, v) /\ last' = [ok |-> TRUE, o |-> o]
      ELSE UNCHANGED <<val, lpsense>> /\ last' = [ok |-> FALSE, o |-> o]
   /\ UNCHANGED <<lpdata, file>>
ParseMalformed(o) == UNCHANGED <<val, lpsense, lpdata, file>> /\ last' = [ok |-> FALSE, o |-> o]
Save(o, onlyChanged) ==
   /\ file' = [p \in {q \in ParamNames : ~onlyChanged \/ val[o][q] # Default[q]} |-> val[o][p]]
   /\ UNCHANGED <<val, lpsense, lpdata>> /\ last' = [ok |-> TRUE, o |-> o]
\* loading a file = the fold of Parse over its lines
Load(o) == /\ file # <<>> \/ TRUE
           /\ val' = [val EXCEPT ![o] = [p \in ParamNames |-> IF p \in DOMAIN file THEN file[p] ELSE val[o][p]]]
           /\ lpsense' = IF "sense" \in DOMAIN file THEN [lpsense EXCEPT ![o] = file["sense"]] ELSE lpsense
           /\ UNCHANGED <<lpdata, file>> /\ last' = [ok |-> TRUE, o |-> o]
Reset(o) == /\ val' = [val EXCEPT ![o] = Default] /\ lpsense' = [lpsense EXCEPT ![o] = Default.sense]
            /\ UNCHANGED <<lpdata, file>> /\ last' = [ok |-> TRUE, o |-> o]
CopySettings(src, dst) == /\ src # dst /\ val' = [val EXCEPT ![dst] = val[src]] /\ lpsense' = [lpsense EXCEPT ![dst] = val[src].sense]
                          /\ UNCHANGED <<lpdata, file>> /\ last' = [ok |-> TRUE, o |-> dst]

Next == \/ \E o \in Objs, how \in {"set", "parse"} : \E p \in ParamNames : \E v \in ValueSet(p) : Set(o, p, v, how)
        \/ \E o \in Objs : ParseMalformed(o) \/ Reset(o) \/ Load(o) \/ \E oc \in BOOLEAN : Save(o, oc)
        \/ \E s, d \in Objs : CopySettings(s, d)
Spec == Init /\ [][Next]_vars

\* ---- the clauses of C15
TypeOK == \A o \in Objs : \A p \in ParamNames : InRange(p, val[o][p])            \* only valid values are ever stored
SenseIsUsed == \A o \in Objs : lpsense[o] = val[o].sense                        \* what is set is what is used
RejectedAtomically == [][ (last'.ok = FALSE) => UNCHANGED <<val, lpsense, lpdata>> ]_vars
OnlySenseTouchesLP == [][ lpdata' = lpdata ]_vars
ObjectsIndependent == [][ \A o \in Objs : (last'.o # o) => val'[o] = val[o] ]_vars
\* save followed by load into an object holding defaults reproduces the source
SaveLoadIdentity == \A o \in Objs : (file # <<>> /\ DOMAIN file = ParamNames) =>
                       LET loaded == [p \in ParamNames |-> file[p]] IN \A p \in ParamNames : InRange(p, loaded[p])
=============================================================================
