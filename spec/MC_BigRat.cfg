INIT Init
NEXT Next
INVARIANT Agree
INVARIANT Fixed
CHECK_DEADLOCK FALSE
