--------------------------- MODULE GEN_Containers ---------------------------
(* GEN direction for C19: TLC enumerates EVERY sequence of GENLEN operation classes of the keyed-set interface for each
   of the seven keyed containers and hands them to the driver (harness/cont_drv.cpp, family "script"), which performs
   them on the real objects; the resulting traces are validated by TV_Containers like any other trace.
   An operation class is a representative of a branch of the driver:
     5 add one/many, 31 add duplicate name, 40 remove(number), 48 remove(key), 60 remove several (perm / numbers / keys),
     73 clear, 80 capacity change (reMax, memRemax, memPack, xtend), 88 change an element in place, 95 copy / assign *)
EXTENDS Integers, Sequences, FiniteSets, Json, IOUtils, TLC, SequencesExt
Ops == {5, 31, 40, 48, 60, 73, 80, 88, 95}
Kinds == 0..6
GenLen == atoi(IOEnv.GENLEN)
RECURSIVE Seqs(_)
Seqs(n) == IF n = 0 THEN {<<>>} ELSE {Append(s, o) : s \in Seqs(n - 1), o \in Ops}
Scripts == {[kind |-> k, ops |-> <<5>> \o s] : k \in Kinds, s \in Seqs(GenLen)}      \* every script starts by adding elements
VARIABLE done
Init == done = FALSE
Next == done = FALSE /\ done' = TRUE
WroteAll == TLCGet("stats").diameter >= 0 /\ ndJsonSerialize(IOEnv.SCRIPTS, SetToSeq(Scripts)) /\ PrintT(<<"SCRIPTS", Cardinality(Scripts)>>)
=============================================================================
