CONSTANTS NRows = 2
NCols = 2
INIT Init
NEXT Next
INVARIANT RoundTrip
INVARIANT RecordsWellFormed
CHECK_DEADLOCK FALSE
