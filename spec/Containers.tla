------------------------------ MODULE Containers ------------------------------
(***************************************************************************)
(* The elementary containers of SoPlex as abstract data types (C19).        *)
(*                                                                         *)
(* keyed set  (DataSet, ClassSet, SVSet, LPRowSet, LPColSet, NameSet):       *)
(*    a sequence of [k |-> key, v |-> value]; the number of an element is    *)
(*    its position - 1.  A key handed out by an insertion is not the key of  *)
(*    any other current element and stays with its element until that        *)
(*    element is removed.  remove(number) moves the LAST element into the    *)
(*    hole (documented); removal of several elements renumbers the           *)
(*    survivors densely in an order the class does not reveal except through *)
(*    the perm[] out-array.  Capacity changes (reMax, memRemax, memPack),    *)
(*    copies and assignments do not change the abstract value.               *)
(* sequence   (DataArray, Array, ClassArray): insert / remove ranges.        *)
(* bag        (IdxSet, DIdxSet): a duplicate-free collection of indices whose*)
(*    order is not specified after a removal.                                *)
(* list       (IdList, IsList): a sequence of element identities.            *)
(* map        (DataHashTable).                                               *)
(* Sparse vector arithmetic = dense arithmetic on the same data (BigRat).    *)
(***************************************************************************)
EXTENDS Integers, Sequences, FiniteSets, BigRat

Range(s) == {s[i] : i \in 1..Len(s)}
IsPermutationOf(s, t) == /\ Len(s) = Len(t)
                         /\ \A x \in Range(s) \cup Range(t) :
                               Cardinality({i \in 1..Len(s) : s[i] = x}) = Cardinality({i \in 1..Len(t) : t[i] = x})

\* ---------------------------------------------------------------- keyed sets
Keys(S) == {S[i].k : i \in 1..Len(S)}
KeysDistinct(S) == Cardinality(Keys(S)) = Len(S)
KAddMany(S, ks, vs) == S \o [i \in 1..Len(ks) |-> [k |-> ks[i], v |-> vs[i]]]
FreshKeys(S, ks) == /\ \A i \in 1..Len(ks) : ks[i] \notin Keys(S)
                    /\ Cardinality(Range(ks)) = Len(ks)
\* remove the element numbered i (1-based here): the last element takes its place
KRemove(S, i) == IF i = Len(S) THEN SubSeq(S, 1, Len(S) - 1)
                 ELSE [j \in 1..(Len(S) - 1) |-> IF j = i THEN S[Len(S)] ELSE S[j]]
\* perm (0-based new numbers, < 0 for removed elements) describes the removal of the positions in sel
PermOK(S, sel, perm) == /\ Len(perm) = Len(S)
                        /\ \A i \in 1..Len(S) : (perm[i] < 0) <=> (i \in sel)
                        /\ {perm[i] : i \in (1..Len(S)) \ sel} = 0..(Len(S) - Cardinality(sel) - 1)
KApplyPerm(S, perm) == LET n == Cardinality({i \in 1..Len(S) : perm[i] >= 0}) IN
                       [j \in 1..n |-> S[CHOOSE i \in 1..Len(S) : perm[i] = j - 1]]
Survivors(S, sel) == LET idx == {i \in 1..Len(S) : i \notin sel} IN {S[i] : i \in idx}
KSet(S, i, v) == [S EXCEPT ![i].v = v]
PosOfKey(S, k) == IF k \in Keys(S) THEN (CHOOSE i \in 1..Len(S) : S[i].k = k) - 1 ELSE -1

\* ---------------------------------------------------------------- sequences
SInsert(S, i, vs) == SubSeq(S, 1, i) \o vs \o SubSeq(S, i + 1, Len(S))         \* before position i (0-based)
SRemove(S, i, n) == SubSeq(S, 1, i) \o SubSeq(S, i + n + 1, Len(S))           \* n elements from position i (0-based)

\* ---------------------------------------------------------------- bags
NoDup(S) == Cardinality(Range(S)) = Len(S)
BRemovePos(S, from, to) == {S[i] : i \in (1..Len(S)) \ ((from + 1)..(to + 1))}

\* ---------------------------------------------------------------- vectors (dense, exact)
VAdd(x, y) == [i \in 1..Len(x) |-> BRAdd(x[i], y[i])]
VSub(x, y) == [i \in 1..Len(x) |-> BRSub(x[i], y[i])]
VScale(a, x) == [i \in 1..Len(x) |-> BRMul(a, x[i])]
VAxpy(a, x, y) == [i \in 1..Len(x) |-> BRAdd(y[i], BRMul(a, x[i]))]          \* y + a x
VDot(x, y) == BRDot(x, y)
VMaxAbs(x) == BRMaxAbs(x)
VLen2(x) == BRDot(x, x)
VNnz(x) == Cardinality({i \in 1..Len(x) : x[i] # "0"})
=============================================================================
