SPECIFICATION MCSpec
CONSTANTS
  MaxDepth = 3
  Design = "dropped"
INVARIANTS InterruptReaches
CHECK_DEADLOCK FALSE
