---------------------------- MODULE GEN_Literals ----------------------------
(* GEN direction: TLC enumerates the literal grammar and hands every literal to the driver (one JSON line each). *)
EXTENDS Literals, Json, IOUtils, TLC, SequencesExt
S2S(S) == LET q == SetToSeq(S) IN [k \in 1..Len(q) |-> [text |-> q[k]]]
VARIABLE done
Init == done = FALSE
Next == done = FALSE /\ done' = TRUE
WroteAll == TLCGet("stats").diameter >= 0 /\ ndJsonSerialize(IOEnv.LITS, S2S(Lits)) /\ PrintT(<<"LITERALS", Cardinality(Lits)>>)
=============================================================================
