SPECIFICATION Spec
CONSTANTS
  Thread = {t1, t2, t3}
  MaxOps = 5
  Design = "thread"
  InitialPrec = 50
  Limit = 300
INVARIANTS TypeOK Isolation OwnPrecision
PROPERTY NoInterference
CHECK_DEADLOCK FALSE
