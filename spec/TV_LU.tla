-------------------------------- MODULE TV_LU --------------------------------
(* Trace validation of SLUFactor<double> (C10) and SLUFactorRational (C11) runs recorded by harness/lu_drv.cpp. *)
EXTENDS LUFactor, Json, IOUtils, TLC
Tr == ndJsonDeserialize(IOEnv.TRACE)
Exact == IOEnv.LUMODE = "rational"
VARIABLES M, st, l
vars == <<M, st, l>>
Ev == Tr[l]
Fail(name, ok) == IF ok THEN {} ELSE {name}
Step(fails, newM, newst) == IF fails = {} THEN M' = newM /\ st' = newst /\ l' = l + 1
                            ELSE PrintT(<<"GUARDFAIL", l, Ev.a, fails>>) /\ FALSE
\* SLinSolver::Status: OK 0, INSTABLE 1, SINGULAR 2, UNLOADED 4, ERROR 8
TVReset == Ev.a = "Reset" /\ M' = <<>> /\ st' = "UNLOADED" /\ l' = l + 1
TVLoad == /\ Ev.a = "load"
          /\ LET sing == Singular(Ev.cols) IN
             Step(Fail("SingularReportedSingular", sing => Ev.status = 2)
                  \cup Fail("NonsingularNotReportedSingular", ~sing => Ev.status = 0)
                  \cup Fail("GeneratorSingular(harness)", Ev.madeSingular => sing),
                  Ev.cols, IF Ev.status = 0 THEN "OK" ELSE "SINGULAR")
TVSolve == /\ Ev.a = "solve"
           /\ Step(Fail("SolveOnlyWhenLoaded", st = "OK") \cup Fail("Residual:" \o Ev.side \o ":" \o Ev.variant, st = "OK" => SolveOK(M, Ev.side, Ev.b, Ev.x, Exact)), M, st)
TVSolveMulti ==
   /\ Ev.a = "solveMulti"
   /\ Step(Fail("SolveOnlyWhenLoaded", st = "OK")
           \cup Fail("Residual:x", st = "OK" => SolveOK(M, Ev.side, Ev.b, Ev.x, Exact))
           \cup Fail("Residual:y", st = "OK" => SolveOK(M, Ev.side, Ev.b2, Ev.y, Exact))
           \cup Fail("Residual:z", st = "OK" /\ Ev.k = 3 => SolveOK(M, Ev.side, Ev.b3, Ev.z, Exact)), M, st)
TVChange == /\ Ev.a = "change"
            /\ LET M2 == Replace(M, Ev.i, Ev.col) IN
               Step(Fail("ChangeOnlyWhenLoaded", st = "OK") \cup Fail("UpdateOfRegularMatrixSucceeds", Singular(M2) \/ Ev.status = 0)
                    \cup Fail("GeneratorKeepsRegular(harness)", ~Singular(M2)), M2, IF Ev.status = 0 THEN "OK" ELSE "SINGULAR")
Init == M = <<>> /\ st = "UNLOADED" /\ l = 1
Next == l <= Len(Tr) /\ (TVReset \/ TVLoad \/ TVSolve \/ TVSolveMulti \/ TVChange)
Spec == Init /\ [][Next]_vars
Accepted == TLCGet("stats").diameter - 1 = Len(Tr)
Report == IF Accepted THEN PrintT(<<"ACCEPTED", Len(Tr)>>) ELSE PrintT(<<"REJECTED", TLCGet("stats").diameter, Len(Tr)>>) /\ FALSE
=============================================================================
