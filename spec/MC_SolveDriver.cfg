SPECIFICATION MCSpec
CONSTANTS
  MaxDepth = 3
  Design = "fixed"
INVARIANTS Bounded InterruptReaches ReturnsLoaded
CHECK_DEADLOCK FALSE
