------------------------------- MODULE TV_API -------------------------------
(***************************************************************************)
(* Trace validation of the SoPlexBase facade: every line of an NDJSON trace *)
(* recorded from the real code (harness/api_drv.cpp) must be a step that    *)
(* SoPlexAPI allows, and the state the code reports after the call (the     *)
(* full projection: both LPs, row view AND column view, basis, status,      *)
(* solution flags) must equal the specification's primed state.             *)
(*                                                                         *)
(* Serves C01 C02 C03 C04 C06 C07 C16 C17 (the workload decides which       *)
(* part of the state space the trace walks through).                        *)
(***************************************************************************)
EXTENDS SoPlexAPI, Json, IOUtils, SequencesExt
BF == INSTANCE BasisFile
\* the control logic of one floating-point optimize() call (hook H1 records its events in the field "frames")
SD == INSTANCE SolveDriver WITH MaxDepth <- 3, Design <- "fixed"

Tr == ndJsonDeserialize(IOEnv.TRACE)

VARIABLES objs,    \* [id -> object record] for the live objects
          memo,    \* verdict memo keyed by LP content: [lp -> [v, val, gap]]   (C04 C06 C17: warm = cold = copy)
          truth,   \* [id -> [known, v, val]] independent knowledge about the LP an object currently holds
          l
vars == <<objs, memo, truth, l>>

NoTruth == [known |-> FALSE, v |-> "", val |-> "0"]
Ev == Tr[l]
Live == DOMAIN objs

\* ---- projection equality: what the accessors report = what the model predicts
LPEq(p, st) ==
   Fail("Dims", st.nr = NR(p) /\ st.nc = NC(p))
   \cup Fail("RowView", st.rows = p.rows)
   \cup Fail("ColView", st.nr = NR(p) /\ st.nc = NC(p) => st.cols = ColView(p))
   \cup Fail("Lhs", st.lhs = p.lhs) \cup Fail("Rhs", st.rhs = p.rhs)
   \cup Fail("Lower", st.lo = p.lo) \cup Fail("Upper", st.up = p.up) \cup Fail("Obj", st.obj = p.obj)
   \cup Fail("Sense", st.sense = p.sense)
   \cup Fail("Nnz", st.nnz = NNZ(p) + st.storedZeros)
LPOfSt(st) == [rows |-> st.rows, lhs |-> st.lhs, rhs |-> st.rhs, lo |-> st.lo, up |-> st.up, obj |-> st.obj,
               sense |-> st.sense, offset |-> "0"]
StShapeOK(st) == /\ Len(st.rows) = st.nr /\ Len(st.lhs) = st.nr /\ Len(st.rhs) = st.nr
                 /\ Len(st.lo) = st.nc /\ Len(st.up) = st.nc /\ Len(st.obj) = st.nc /\ Len(st.cols) = st.nc
                 /\ \A i \in 1..st.nr : WellFormedVec(st.rows[i], st.nc)
\* C09: the stored LP is the user's LP scaled by exact powers of two; infinite bounds and sides stay infinite
ScaleNum(x, e) == IF BRIsFinite(x) THEN BRMulPow2(x, e) ELSE x
ScaledFails(p, st) ==
   IF ~st.hasInternal THEN {} ELSE
   LET n == st.internal IN
   IF Len(n.rexp) # NR(p) \/ Len(n.cexp) # NC(p) \/ Len(n.rows) # NR(p) THEN {"Scaled:Shape"} ELSE
   IF (\E i \in 1..Len(n.rexp) : n.rexp[i] < -1100 \/ n.rexp[i] > 1100) \/ (\E j \in 1..Len(n.cexp) : n.cexp[j] < -1100 \/ n.cexp[j] > 1100) THEN {"Scaled:ExponentRange"} ELSE
   Fail("Scaled:Matrix", \A i \in 1..NR(p) : n.rows[i] = [k \in 1..Len(p.rows[i]) |-> <<p.rows[i][k][1], BRMulPow2(p.rows[i][k][2], n.rexp[i] + n.cexp[p.rows[i][k][1] + 1])>>])
   \cup Fail("Scaled:Lhs", n.lhs = [i \in 1..NR(p) |-> ScaleNum(p.lhs[i], n.rexp[i])])
   \cup Fail("Scaled:Rhs", n.rhs = [i \in 1..NR(p) |-> ScaleNum(p.rhs[i], n.rexp[i])])
   \cup Fail("Scaled:Lower", n.lo = [j \in 1..NC(p) |-> ScaleNum(p.lo[j], -n.cexp[j])])
   \cup Fail("Scaled:Upper", n.up = [j \in 1..NC(p) |-> ScaleNum(p.up[j], -n.cexp[j])])
   \cup Fail("Scaled:Obj", n.maxobj = [j \in 1..NC(p) |-> BRMulPow2(BRMul(IF p.sense = 1 THEN "1" ELSE "-1", p.obj[j]), n.cexp[j])])

ProjFails(s, st) ==
   { "R:" \o n : n \in LPEq(s.rlp, st) }
   \cup (IF LPEq(s.rlp, st) = {} THEN ScaledFails(s.rlp, st) ELSE {})
   \cup Fail("RowTypeReal", st.nr = NR(s.rlp) => st.rtype = [i \in 1..NR(s.rlp) |-> RowType(s.rlp.lhs[i], s.rlp.rhs[i])])
   \cup Fail("Offset", st.offset = s.rlp.offset) \cup Fail("OffsetParam", st.offsetParam = s.offsetPar)
   \cup Fail("SenseParamAgrees", st.senseParam = st.sense)
   \* C15/C17: what is set is what is used, per object (a copy must not share the tolerances object of its source)
   \cup Fail("EpsilonParam", st.epsParam = s.epsz) \cup Fail("EpsilonUsed", BRLeq(BRAbs(BRSub(st.tolEps, s.epsz)), BRMulPow2(s.epsz, -40)))
   \cup Fail("FeastolParam", st.feastolParam = s.ftol)
   \cup Fail("SyncMode", st.sync = s.sync)
   \cup Fail("HasRational", st.hasQ = s.hasQ)
   \cup (IF s.hasQ /\ st.hasQ THEN { "Q:" \o n : n \in LPEq(s.qlp, st.q) }
                                   \cup Fail("RangeTypesRows", s.sync # 1 \/ st.q.nr # NR(s.qlp) \/ st.rowTypes = [i \in 1..NR(s.qlp) |-> RangeType(s.qlp.lhs[i], s.qlp.rhs[i])])
                                   \cup Fail("RangeTypesCols", s.sync # 1 \/ st.q.nc # NC(s.qlp) \/ st.colTypes = [j \in 1..NC(s.qlp) |-> RangeType(s.qlp.lo[j], s.qlp.up[j])])
         ELSE {})
   \cup Fail("Status", st.status = s.status)
   \cup Fail("HasSol", st.hasSol = s.hasSol)
   \cup Fail("HasBasis", st.hasBasis = s.hasBasis)
   \cup (IF s.hasBasis /\ st.hasBasis THEN Fail("BasisRows", st.brow = s.brow) \cup Fail("BasisCols", st.bcol = s.bcol) ELSE {})


\* frame condition (C17): every other live object is untouched by a call on object o
OthersFails(o) ==
   UNION { IF Ev.others[k].o = o \/ Ev.others[k].o \notin Live THEN {}
           ELSE { "Other:" \o n : n \in ProjFails(objs[Ev.others[k].o], Ev.others[k].st) }
           : k \in 1..Len(Ev.others) }

\* ---- step plumbing: a step is taken iff no guard fails; otherwise the failing guards are printed
Step(fails, o, news, newmemo, newtruth) ==
   IF fails = {}
   THEN /\ objs' = (IF o \in Live THEN [objs EXCEPT ![o] = news] ELSE objs @@ (o :> news))
        /\ memo' = newmemo /\ truth' = newtruth /\ l' = l + 1
   ELSE PrintT(<<"GUARDFAIL", l, Ev.a, fails>>) /\ FALSE
KeepT(o) == IF o \in DOMAIN truth THEN truth ELSE truth @@ (o :> NoTruth)
Forget(o) == IF o \in DOMAIN truth THEN [truth EXCEPT ![o] = NoTruth] ELSE truth @@ (o :> NoTruth)

\* taking over the (unpredicted) basis a call leaves behind, under the C04 structural invariant
TakeBasis(s, st) == [s EXCEPT !.hasBasis = st.hasBasis, !.brow = IF st.hasBasis THEN st.brow ELSE <<>>,
                              !.bcol = IF st.hasBasis THEN st.bcol ELSE <<>>]
BasisInvFails(s) == IF s.hasBasis THEN BasisFails(s.rlp, s.brow, s.bcol) ELSE {}

-----------------------------------------------------------------------------
NoMemo == [v |-> <<>>, d |-> <<>>]
TVReset == Ev.a = "Reset" /\ objs' = <<>> /\ memo' = NoMemo /\ truth' = <<>> /\ l' = l + 1

\* the defaults of the real parameters are doubles (1e-16, 1e-6 are not dyadic): take their exact values from the first projection
TVCreate == Ev.a = "create" /\ LET s == [NewObject EXCEPT !.epsz = Ev.st.epsParam, !.ftol = Ev.st.feastolParam] IN
   Step(Fail("FreshId", Ev.o \notin Live) \cup ProjFails(s, Ev.st), Ev.o, s, memo, Forget(Ev.o))

\* a modification through the real or the rational interface
TVMod ==
   /\ Ev.a = "mod" /\ Ev.o \in Live
   /\ LET s == objs[Ev.o]  n == Ev.name  g == Ev.g  st == Ev.st
          viaReal == Ev.via = "real"
          shape == StShapeOK(st) /\ (st.hasQ => StShapeOK(st.q))
          valid == IF viaReal THEN ValidArgs(s.rlp, n, g) ELSE s.hasQ /\ ValidArgs(s.qlp, n, g)
          \* real interface: the real LP is predicted exactly; in AUTO mode so is the rational LP
          \* rational interface: the rational LP is predicted exactly; in AUTO mode the real LP is
          \*   taken from the trace and must be its coefficient-wise floating-point image
          rl == IF viaReal THEN Apply(s.rlp, n, g)
                ELSE IF s.sync = 1 /\ shape THEN [LPOfSt(st) EXCEPT !.offset = s.rlp.offset] ELSE s.rlp
          ql == IF viaReal THEN (IF s.sync = 1 THEN Apply(s.qlp, n, g) ELSE s.qlp)
                ELSE Apply(s.qlp, n, g)
          s1 == [s EXCEPT !.rlp = rl, !.qlp = ql, !.status = ST_UNKNOWN, !.hasSol = FALSE]
          s2 == TakeBasis(s1, st)
          touchedReal == viaReal \/ s.sync = 1
      IN Step(IF ~valid THEN {"InvalidArgs"} ELSE IF ~shape THEN {"StShape"} ELSE
              ProjFails(s2, st)
              \cup Fail("PermOut", Ev.permOut = <<>> \/ Ev.permOut = PermOut(IF viaReal THEN s.rlp ELSE s.qlp, n, g))
              \cup Fail("BasisKeptIfRealUntouched", ~touchedReal => (st.hasBasis = s.hasBasis))
              \cup BasisInvFails(s2)
              \cup (IF ~viaReal /\ s.sync = 1 THEN InSyncFails(rl, ql) ELSE {})
              \cup OthersFails(Ev.o),
              Ev.o, s2, memo, IF touchedReal THEN Forget(Ev.o) ELSE KeepT(Ev.o))

\* parameters that touch the LP or the result guards
TVSetInt ==
   /\ Ev.a = "setInt" /\ Ev.o \in Live
   /\ LET s == objs[Ev.o]  st == Ev.st
          s1 == CASE Ev.p = "OBJSENSE" /\ Ev.ret ->
                       [s EXCEPT !.rlp.sense = Ev.v, !.qlp.sense = IF s.hasQ THEN Ev.v ELSE @, !.status = ST_UNKNOWN, !.hasSol = FALSE]
                  [] Ev.p = "SYNCMODE" /\ Ev.ret ->
                       (CASE Ev.v = 0 -> [s EXCEPT !.sync = 0, !.hasQ = FALSE, !.qlp = EmptyLP]
                          [] Ev.v = 1 -> IF s.sync = 0 THEN [s EXCEPT !.sync = 1, !.hasQ = TRUE, !.qlp = [s.rlp EXCEPT !.offset = "0"]]
                                         ELSE [s EXCEPT !.sync = 1]
                          [] Ev.v = 2 -> IF s.hasQ THEN [s EXCEPT !.sync = 2, !.qlp.sense = s.rlp.sense]
                                         ELSE [s EXCEPT !.sync = 2, !.hasQ = TRUE, !.qlp = [EmptyLP EXCEPT !.sense = s.rlp.sense]])
                  [] Ev.p = "ITERLIMIT" /\ Ev.ret -> [s EXCEPT !.iterlimit = Ev.v]
                  [] OTHER -> s
          s2 == IF Ev.p = "OBJSENSE" THEN TakeBasis(s1, st) ELSE s1
      IN Step(ProjFails(s2, st) \cup BasisInvFails(s2) \cup OthersFails(Ev.o)
              \cup Fail("ObjSenseRange", Ev.p = "OBJSENSE" => (Ev.ret = (Ev.v \in {-1, 1})))
              \cup Fail("SyncModeRange", Ev.p = "SYNCMODE" => (Ev.ret = (Ev.v \in {0, 1, 2}))),
              Ev.o, s2, memo, IF Ev.p = "OBJSENSE" /\ Ev.ret THEN Forget(Ev.o) ELSE KeepT(Ev.o))
TVSetBool ==
   /\ Ev.a = "setBool" /\ Ev.o \in Live
   /\ LET s == objs[Ev.o]
          s1 == IF Ev.p = "ENSURERAY" /\ Ev.ret THEN [s EXCEPT !.ensureray = Ev.v] ELSE s
      IN Step(ProjFails(s1, Ev.st) \cup OthersFails(Ev.o), Ev.o, s1, memo, KeepT(Ev.o))
TVSetReal ==
   /\ Ev.a = "setReal" /\ Ev.o \in Live
   /\ LET s == objs[Ev.o]
          s1 == CASE Ev.p = "OBJ_OFFSET" /\ Ev.ret -> [s EXCEPT !.rlp.offset = Ev.v, !.offsetPar = Ev.v]
                  [] Ev.p = "FEASTOL" /\ Ev.ret -> [s EXCEPT !.ftol = Ev.v]
                  [] Ev.p = "OPTTOL" /\ Ev.ret -> [s EXCEPT !.otol = Ev.v]
                  [] Ev.p = "EPSILON_ZERO" /\ Ev.ret -> [s EXCEPT !.epsz = Ev.v]
                  [] Ev.p = "TIMELIMIT" /\ Ev.ret -> [s EXCEPT !.tlimit = Ev.v]
                  [] Ev.p = "OBJLIMIT_LOWER" /\ Ev.ret -> [s EXCEPT !.objlo = Ev.v]
                  [] Ev.p = "OBJLIMIT_UPPER" /\ Ev.ret -> [s EXCEPT !.objup = Ev.v]
                  [] OTHER -> s
      IN Step(ProjFails(s1, Ev.st) \cup OthersFails(Ev.o), Ev.o, s1, memo,
              IF Ev.p = "OBJ_OFFSET" THEN Forget(Ev.o) ELSE KeepT(Ev.o))

\* setSettings(other.settings()): every parameter is set through its typed setter
TVSetSettingsFrom ==
   /\ Ev.a = "setSettingsFrom" /\ Ev.o \in Live
   /\ LET s == objs[Ev.o]  g == Ev.g
          s1 == [s EXCEPT !.rlp.sense = g.sense, !.rlp.offset = g.offset, !.offsetPar = g.offset, !.ftol = g.ftol, !.otol = g.otol, !.epsz = g.epsz, !.tlimit = g.tlimit, !.objlo = g.objlo, !.objup = g.objup,
                          !.iterlimit = g.iterlimit, !.ensureray = g.ensureray]
      IN Step(Fail("SetSettingsKeepsSync(harness)", g.sync = s.sync) \cup ProjFails(s1, Ev.st) \cup OthersFails(Ev.o),
              Ev.o, s1, memo, Forget(Ev.o))

\* explicit synchronisation calls (only act in MANUAL mode)
TVSync ==
   /\ Ev.a = "sync" /\ Ev.o \in Live
   /\ LET s == objs[Ev.o]  st == Ev.st
          shape == StShapeOK(st) /\ (st.hasQ => StShapeOK(st.q))
          s1 == IF s.sync # 2 THEN s
                ELSE IF Ev.which = "rational" THEN [s EXCEPT !.qlp = [s.rlp EXCEPT !.offset = "0"]]     \* syncLPRational: exact copy
                ELSE IF shape THEN [s EXCEPT !.rlp = [LPOfSt(st) EXCEPT !.offset = st.offset], !.hasBasis = FALSE, !.brow = <<>>, !.bcol = <<>>]
                ELSE s
          s2 == IF s.sync = 2 /\ Ev.which = "real" THEN [s1 EXCEPT !.status = st.status, !.hasSol = st.hasSol] ELSE s1
      IN Step(IF ~shape THEN {"StShape"} ELSE
              ProjFails(s2, st) \cup OthersFails(Ev.o)
              \cup (IF s.sync = 2 THEN { "Sync" \o n : n \in InSyncFails(s2.rlp, s2.qlp) } ELSE {}),
              Ev.o, s2, memo, IF s.sync = 2 /\ Ev.which = "real" THEN Forget(Ev.o) ELSE KeepT(Ev.o))

\* independent knowledge about the current LP, verified exactly before it is believed
TVWitness ==
   /\ Ev.a = "witness" /\ Ev.o \in Live
   /\ LET s == objs[Ev.o]  lp == s.rlp
          ok == CASE Ev.kind = "OPT" -> CertFails(lp, Ev.sol, ObjOf(lp, Ev.sol.x), "0", "0", TRUE) = {}
                  [] Ev.kind = "INF" -> FarkasFails(lp, Ev.farkas, "0") = {}
                  [] Ev.kind = "UNB" -> FeasibleExact(lp, Ev.x) /\ RayFails(lp, Ev.ray, "0") = {}
                  [] OTHER -> FALSE
          t == [known |-> TRUE, v |-> Ev.kind, val |-> IF Ev.kind = "OPT" THEN ObjOf(lp, Ev.sol.x) ELSE "0"]
      IN Step(Fail("WitnessInvalid(harness)", ok), Ev.o, s, memo, [KeepT(Ev.o) EXCEPT ![Ev.o] = t])

\* status compatibility between two solves of the same LP content
\* (an LP that is primal AND dual infeasible may be reported as INFEASIBLE, UNBOUNDED or INForUNBD: none of C02's clauses
\*  distinguishes them; OPTIMAL is compatible with OPTIMAL only)
Compat(a, b) == \/ a = b
                \/ {a, b} \subseteq {ST_UNBOUNDED, ST_INFEASIBLE, ST_INFORUNBD}
MemoKey(s) == s.rlp
TVOptimize ==
   /\ Ev.a = "optimize" /\ Ev.o \in Live
   /\ LET s0 == objs[Ev.o]  r == Ev.r  st == Ev.st
          s == [s0 EXCEPT !.rlp.offset = s0.offsetPar]      \* _preprocessAndSolveReal: changeObjOffset(realParam(OBJ_OFFSET))
          t == KeepT(Ev.o)[Ev.o]
          base == SolveFails(s, r, t, Ev.exact)
          k == MemoKey(s)
          conclusive == r.status \in {ST_OPTIMAL, ST_UNBOUNDED, ST_INFEASIBLE, ST_INFORUNBD}
          gap == IF r.status = ST_OPTIMAL /\ r.hasSol /\ base = {} THEN GapBound(s.rlp, r.sol, s.ftol, s.otol) ELSE "0"
          mfails == IF Ev.limited \/ k \notin DOMAIN memo.v \/ ~conclusive \/ ~Ev.wellScaled THEN {}
                    ELSE Fail("SameStatusAsOtherSolveOfSameLP", Compat(memo.v[k].status, r.status))
                         \cup Fail("SameValueAsOtherSolveOfSameLP",
                                   memo.v[k].status = ST_OPTIMAL /\ r.status = ST_OPTIMAL /\ r.hasSol =>
                                   BRLeq(BRAbs(BRSub(memo.v[k].val, r.objval)), BRAdd(memo.v[k].gap, gap)))
          \* C17 determinism memo: same <LP, all parameters + seed, start basis> => bit-identical result record
          \* (claimed for fresh objects given the same LP and for the same unmodified object after clearBasis: the
          \*  driver tags the solves that must coincide with a common detKey)
          dk == <<Ev.detKey, s.rlp, Ev.pdig, s.hasBasis, s.brow, s.bcol>>
          dfails == IF Ev.detKey # "" /\ dk \in DOMAIN memo.d THEN Fail("Deterministic", memo.d[dk] = r) ELSE {}
          newmemo == [v |-> IF Ev.limited \/ k \in DOMAIN memo.v \/ ~conclusive THEN memo.v
                            ELSE memo.v @@ (k :> [status |-> r.status, val |-> r.objval, gap |-> gap]),
                      d |-> IF Ev.detKey = "" \/ dk \in DOMAIN memo.d THEN memo.d ELSE memo.d @@ (dk :> r)]
          s1 == [s EXCEPT !.status = r.status, !.hasSol = r.hasSol, !.hasBasis = r.hasBasis,
                          !.brow = IF r.hasBasis THEN r.brow ELSE <<>>, !.bcol = IF r.hasBasis THEN r.bcol ELSE <<>>]
          driver == IF "frames" \in DOMAIN Ev THEN { "Driver:" \o n : n \in SD!Accepts(Ev.frames) } ELSE {}
      IN Step(base \cup mfails \cup dfails \cup driver \cup ProjFails(s1, st) \cup OthersFails(Ev.o)
              \cup Fail("Completeness", Ev.complete /\ t.known /\ t.v = "OPT" => r.status = ST_OPTIMAL),
              Ev.o, s1, newmemo, KeepT(Ev.o))

\* basis set / clear / query
TVSetBasis ==
   /\ Ev.a = "setBasis" /\ Ev.o \in Live
   /\ LET s == objs[Ev.o]  st == Ev.st
          nb == SetBasisNormal(s.rlp, Ev.brow, Ev.bcol)
          validIn == BasisFails(s.rlp, Ev.brow, Ev.bcol) = {}
          s1 == IF validIn THEN [s EXCEPT !.hasBasis = TRUE, !.brow = nb.rows, !.bcol = nb.cols] ELSE TakeBasis(s, st)
      IN Step(ProjFails(s1, st) \cup BasisInvFails(s1) \cup OthersFails(Ev.o), Ev.o, s1, memo, KeepT(Ev.o))
TVClearBasis ==
   /\ Ev.a = "clearBasis" /\ Ev.o \in Live
   /\ LET s == objs[Ev.o]
          \* clearBasis re-reads the status from the reloaded solver: any non-verdict code, never a new verdict
          s1 == [s EXCEPT !.hasBasis = FALSE, !.brow = <<>>, !.bcol = <<>>, !.status = Ev.st.status]
      IN Step(ProjFails(s1, Ev.st) \cup OthersFails(Ev.o)
              \cup Fail("ClearBasisNoNewVerdict", Ev.st.status = s.status \/ Ev.st.status <= 0),
              Ev.o, s1, memo, KeepT(Ev.o))
\* the per-variable queries, the array query and the index query describe the same basic set
TVQueryBasis ==
   /\ Ev.a = "queryBasis" /\ Ev.o \in Live
   /\ LET s == objs[Ev.o] IN
      Step(ProjFails(s, Ev.st) \cup OthersFails(Ev.o)
           \cup (IF s.hasBasis THEN Fail("PerVarRows", Ev.prow = s.brow) \cup Fail("PerVarCols", Ev.pcol = s.bcol)
                                    \cup BindFails(s.rlp, s.brow, s.bcol, Ev.bind)
                 ELSE {}),
           Ev.o, s, memo, KeepT(Ev.o))

\* copies are equal and independent
TVCopy ==
   /\ Ev.a \in {"copy", "assign"} /\ Ev.src \in Live
   /\ LET s == objs[Ev.src] IN
      Step(Fail("CopyTargetFresh", Ev.a = "copy" => Ev.o \notin Live)
           \cup { "Copy:" \o n : n \in ProjFails(s, Ev.st) } \cup OthersFails(Ev.o)
           \cup Fail("CopySolution", Ev.dstSol = Ev.srcSol),
           Ev.o, s, memo, [KeepT(Ev.o) EXCEPT ![Ev.o] = KeepT(Ev.src)[Ev.src]])
TVDestroy ==
   /\ Ev.a = "destroy" /\ Ev.o \in Live
   /\ IF OthersFails(Ev.o) = {}
      THEN /\ objs' = [k \in Live \ {Ev.o} |-> objs[k]] /\ memo' = memo /\ truth' = truth /\ l' = l + 1
      ELSE PrintT(<<"GUARDFAIL", l, Ev.a, OthersFails(Ev.o)>>) /\ FALSE

\* C05: basis-inverse and basis-multiply queries agree with B assembled BY THE SPECIFICATION from the user's LP
\* backward residuals only: ||residual||_inf <= 2^-26 * (||B||_max * ||x||_1 + ||b||_inf + 1)
Unit(n, k) == [i \in 1..n |-> IF i = k THEN "1" ELSE "0"]
ResidOK(res, mag) == BRLeq(BRMaxAbs(res), BRMulPow2(BRAdd(mag, "1"), -26))
VecSub(a, b) == [i \in 1..Len(a) |-> BRSub(a[i], b[i])]
MatMaxAbs(M) == BRMaxAbs([i \in 1..Len(M) |-> BRMaxAbs(M[i])])
TVBinv ==
   /\ Ev.a = "binv" /\ Ev.o \in Live
   /\ LET s == objs[Ev.o]  lp == s.rlp  n == NR(lp)
          shapeOK == Len(Ev.bind) = n /\ Len(Ev.res) = n /\ (Ev.kind \in {"times", "mult", "multT"} => Len(Ev.vec) = n)
                     /\ \A k \in 1..Len(Ev.bind) : Ev.bind[k] \in (-n)..(NC(lp) - 1)
          B == BasisMatrix(lp, Ev.bind)
          regular == BRDet(B) # "0"
          x == Ev.res  k == Ev.idx + 1
          bm == MatMaxAbs(B)
          mag(v, b) == BRAdd(BRMul(bm, BRSumAbs(v)), BRMaxAbs(b))
          fails == IF ~Ev.ret THEN Fail("BinvReturnsFalseOnRegularBasis", ~(s.hasBasis /\ shapeOK /\ regular))
                   ELSE IF ~shapeOK THEN {"Binv:Shape"}
                   ELSE IF ~regular THEN {}
                   ELSE CASE Ev.kind = "row"   -> Fail("InvRowTimesB", ResidOK(VecSub(BRVecMat(x, B), Unit(n, k)), mag(x, Unit(n, k))))
                          [] Ev.kind = "col"   -> Fail("BTimesInvCol", ResidOK(VecSub(BRMatVec(B, x), Unit(n, k)), mag(x, Unit(n, k))))
                          [] Ev.kind = "times" -> Fail("BTimesSolve", ResidOK(VecSub(BRMatVec(B, x), Ev.vec), mag(x, Ev.vec)))
                          [] Ev.kind = "mult"  -> Fail("MultBasis", ResidOK(VecSub(x, BRMatVec(B, Ev.vec)), mag(Ev.vec, x)))
                          [] Ev.kind = "multT" -> Fail("MultBasisTranspose", ResidOK(VecSub(x, BRVecMat(Ev.vec, B)), mag(Ev.vec, x)))
                          [] OTHER -> {"Binv:Kind"}
          sparseFails == IF Ev.ret /\ Ev.sparse /\ Ev.ninds >= 0 /\ shapeOK
                         THEN Fail("SparseIndsAreSupport", {Ev.inds[t] + 1 : t \in 1..Len(Ev.inds)} = {i \in 1..n : x[i] # "0"} /\ Len(Ev.inds) = Ev.ninds)
                         ELSE {}
      IN Step(fails \cup sparseFails \cup ProjFails(s, Ev.st) \cup BindFails(lp, s.brow, s.bcol, Ev.bind) \cup OthersFails(Ev.o), Ev.o, s, memo, KeepT(Ev.o))

\* ---- C11 (second half): the rational basis inverse exposed for the solver basis is the EXACT inverse of the basis
\* matrix assembled from the current rational LP and the current basis; it is never served from a stale factorization
TVBinvQ ==
   /\ Ev.a = "binvq" /\ Ev.o \in Live
   /\ LET s == objs[Ev.o]  lp == s.qlp  n == NR(lp)
          basicIds == {j - 1 : j \in {jj \in 1..Len(s.bcol) : s.bcol[jj] = BASIC}} \cup {-i : i \in {ii \in 1..Len(s.brow) : s.brow[ii] = BASIC}}
          proper == s.hasQ /\ s.hasBasis /\ Len(s.brow) = n /\ Len(s.bcol) = NC(lp) /\ Cardinality(basicIds) = n
          regular == proper /\ BRDet(BasisMatrix(lp, SetToSeq(basicIds))) # "0"
          x == Ev.res  k == Ev.idx + 1
          B == BasisMatrix(lp, Ev.bind)
          zero(v) == \A t \in 1..Len(v) : v[t] = "0"
          shapeOK == Len(Ev.bind) = n /\ (Ev.kind \in {"row", "col", "times"} => Len(x) = n) /\ (Ev.kind = "times" => Len(Ev.vec) = n)
          \* (a query may also fail because the factorization ran into the time limit, LU status TIME = 16: the limit counts the
          \*  time of the preceding solve, so after a solve stopped by the time limit no time is left)
          fails == IF ~Ev.ret THEN Fail("BinvQFalseOnRegularBasis", ~regular \/ (Ev.st.ratLU = 16 /\ BRIsFinite(s.tlimit)))
                   ELSE IF ~regular THEN {"BinvQTrueOnSingularOrMissingBasis"}
                   ELSE IF ~Ev.bindOK \/ ~shapeOK THEN {"BinvQ:Shape"}
                   ELSE IF BindFails(lp, s.brow, s.bcol, Ev.bind) # {} THEN BindFails(lp, s.brow, s.bcol, Ev.bind)
                   ELSE CASE Ev.kind = "row"   -> Fail("ExactInvRowTimesB", zero(VecSub(BRVecMat(x, B), Unit(n, k))))
                          [] Ev.kind = "col"   -> Fail("ExactBTimesInvCol", zero(VecSub(BRMatVec(B, x), Unit(n, k))))
                          [] Ev.kind = "times" -> Fail("ExactBTimesSolve", zero(VecSub(BRMatVec(B, x), Ev.vec)))
                          [] OTHER -> {}
      IN Step(fails \cup ProjFails(s, Ev.st) \cup OthersFails(Ev.o), Ev.o, s, memo, KeepT(Ev.o))

\* ---- C20: the C interface.  Every C call is paired with the C++ call on a mirror object (an ordinary event, validated by
\* the actions above).  The C object must then be in the mirror's SPECIFIED state, the C results must equal the mirror's
\* and the specified values, the dense C arguments must denote exactly the arguments of the C++ call, and nothing outside
\* the stated array lengths may be written (guard words around every array).
KthOf(S, k) == CHOOSE i \in S : Cardinality({j \in S : j < i}) = k - 1
DenseToSp(d, n) == LET idxs == {i \in 1..n : d[i] # "0"} IN [k \in 1..Cardinality(idxs) |-> <<KthOf(idxs, k) - 1, d[KthOf(idxs, k)]>>]
RatToSp(nu, de, n) == LET idxs == {i \in 1..n : nu[i] # "0"} IN [k \in 1..Cardinality(idxs) |-> <<KthOf(idxs, k) - 1, BRDiv(nu[KthOf(idxs, k)], de[KthOf(idxs, k)])>>]
RatVec(nu, de, n) == [i \in 1..n |-> BRDiv(nu[i], de[i])]
CArgsOK(cn, a, g) ==
   CASE cn = "addColReal" -> Len(a.entries) = a.size /\ g.vec = DenseToSp(a.entries, a.size) /\ g.obj = a.obj /\ g.lo = a.lb /\ g.up = a.ub
     [] cn = "addRowReal" -> Len(a.entries) = a.size /\ g.vec = DenseToSp(a.entries, a.size) /\ g.lhs = a.lb /\ g.rhs = a.ub
     [] cn = "addColRational" -> g.vec = RatToSp(a.nums, a.dens, a.size) /\ g.obj = BRDiv(a.objn, a.objd) /\ g.lo = BRDiv(a.lbn, a.lbd) /\ g.up = BRDiv(a.ubn, a.ubd)
     [] cn = "addRowRational" -> g.vec = RatToSp(a.nums, a.dens, a.size) /\ g.lhs = BRDiv(a.lbn, a.lbd) /\ g.rhs = BRDiv(a.ubn, a.ubd)
     [] cn \in {"removeColReal", "removeRowReal"} -> g.i = a.i
     [] cn \in {"changeObjReal", "changeLhsReal", "changeRhsReal", "changeLowerReal", "changeUpperReal"} -> g.v = a.v /\ Len(a.v) = a.dim
     [] cn = "changeRangeReal" -> g.lhs = a.lhs /\ g.rhs = a.rhs /\ Len(a.lhs) = a.dim
     [] cn = "changeBoundsReal" -> g.lo = a.lo /\ g.up = a.up /\ Len(a.lo) = a.dim
     [] cn \in {"changeObjRational", "changeLhsRational", "changeRhsRational"} -> g.v = RatVec(a.nums, a.dens, a.dim)
     [] cn = "changeVarBoundsRational" -> g.i = a.i /\ g.lo = BRDiv(a.lbn, a.lbd) /\ g.up = BRDiv(a.ubn, a.ubd)
     [] cn \in {"changeRowLhsReal", "changeRowRhsReal", "changeRowRangeReal", "changeVarBoundsReal", "changeVarLowerReal", "changeVarUpperReal"} -> g = a
     [] OTHER -> TRUE
\* what the specification itself says the getters return
CSpecResult(cn, a, r, m) ==
   CASE cn = "dims" -> r = <<NR(m.rlp), NC(m.rlp)>>
     [] cn = "getLowerReal" -> a.dim = NC(m.rlp) /\ SubSeq(r, 1, a.dim) = m.rlp.lo /\ \A i \in (a.dim + 1)..Len(r) : r[i] = "777"
     [] cn = "getUpperReal" -> a.dim = NC(m.rlp) /\ SubSeq(r, 1, a.dim) = m.rlp.up /\ \A i \in (a.dim + 1)..Len(r) : r[i] = "777"
     [] cn = "getObjReal" -> a.dim = NC(m.rlp) /\ SubSeq(r, 1, a.dim) = m.rlp.obj /\ \A i \in (a.dim + 1)..Len(r) : r[i] = "777"
     [] cn = "getRowBoundsReal" -> r = <<m.rlp.lhs[a.i + 1], m.rlp.rhs[a.i + 1]>>
     [] cn = "getRowVectorReal" -> r.vec = m.rlp.rows[a.i + 1] /\ r.nnz = Len(m.rlp.rows[a.i + 1])
     [] cn = "getRowBoundsRational" -> m.hasQ /\ r = <<m.qlp.lhs[a.i + 1], m.qlp.rhs[a.i + 1]>>
     [] cn = "getRowVectorRational" -> m.hasQ /\ r.vec = m.qlp.rows[a.i + 1] /\ r.nnz = Len(m.qlp.rows[a.i + 1])
     [] OTHER -> TRUE
TVCCall ==
   /\ Ev.a = "ccall" /\ Ev.o \in Live /\ Ev.mirror \in Live
   /\ LET m == objs[Ev.mirror] IN
      Step({ "C:" \o n : n \in ProjFails(m, Ev.st) }
           \cup Fail("C:ArgumentsDenoteTheSameCall:" \o Ev.cname, CArgsOK(Ev.cname, Ev.cargs, Ev.g))
           \cup Fail("C:ResultsEqualCxx:" \o Ev.cname, Ev.cres = Ev.mres)
           \cup Fail("C:ResultsEqualSpec:" \o Ev.cname, CSpecResult(Ev.cname, Ev.cargs, Ev.cres, m))
           \cup Fail("C:NoWriteOutsideArrays:" \o Ev.cname, Ev.canary),
           Ev.o, m, memo, KeepT(Ev.o))

\* ---- C13: a file reader fed with arbitrary bytes.  Whatever it returns, the object must afterwards be in SOME
\* self-consistent state (taken from the projection: the content of the file is not specified), from which the history
\* continues under the ordinary actions (solve, clear, load, solve with a known status).  An unmutated seed file whose LP is
\* known must be read as exactly that LP.
TVReadFile ==
   /\ Ev.a = "readFile" /\ Ev.o \in Live
   /\ LET s == objs[Ev.o]  st == Ev.st
          shape == StShapeOK(st) /\ (st.hasQ => StShapeOK(st.q))
          rl == [LPOfSt(st) EXCEPT !.offset = st.offset]
          ql == IF st.hasQ /\ shape THEN LPOfSt(st.q) ELSE s.qlp
          s1 == [s EXCEPT !.rlp = rl, !.qlp = ql, !.offsetPar = st.offsetParam, !.status = st.status, !.hasSol = FALSE,
                          !.hasBasis = FALSE, !.brow = <<>>, !.bcol = <<>>]
          ex == [rows |-> Ev.expect.rows, lhs |-> Ev.expect.lhs, rhs |-> Ev.expect.rhs, lo |-> Ev.expect.lo, up |-> Ev.expect.up,
                 obj |-> Ev.expect.obj, sense |-> Ev.expect.sense, offset |-> "0"]
      IN Step(IF ~shape THEN {"Read:StShape"} ELSE
              { "Read:" \o n : n \in ProjFails(s1, st) }                                  \* incl. row file = column file, rational LP projected consistently
              \cup Fail("Read:NoStaleSolutionOrBasis", ~st.hasSol /\ ~st.hasBasis)
              \cup Fail("Read:NoNewVerdict", st.status <= 0)
              \cup Fail("Read:NameSetsMatchDimensions", Ev.ret => Ev.nRowNames = st.nr /\ Ev.nColNames = st.nc)
              \cup (IF s.sync = 1 /\ st.hasQ THEN { "Read:" \o n : n \in InSyncFails(rl, ql) } ELSE {})
              \cup (IF Ev.hasExpect THEN Fail("Read:SeedFileAccepted", Ev.ret)
                                        \cup (IF Ev.ret THEN { "Read:Expected:" \o n : n \in (IF Ev.rational /\ st.hasQ THEN LPEq(ex, st.q) ELSE LPEq(ex, st)) } ELSE {})
                    ELSE {})
              \cup OthersFails(Ev.o),
              Ev.o, s1, memo, Forget(Ev.o))
\* a (possibly mutated) basis file: afterwards the object either has no basis or a structurally valid one for its LP
TVReadBasisFuzz ==
   /\ Ev.a = "readBasisFuzz" /\ Ev.o \in Live
   /\ LET s == objs[Ev.o]  st == Ev.st
          s1 == [TakeBasis(s, st) EXCEPT !.status = st.status, !.hasSol = st.hasSol]
      IN Step(ProjFails(s1, st) \cup BasisInvFails(s1)
              \cup Fail("ReadBasis:UnmutatedAccepted", Ev.mutation = "none" => Ev.ret)
              \cup Fail("ReadBasis:NoNewVerdict", st.status = s.status \/ st.status <= 0)
              \cup OthersFails(Ev.o), Ev.o, s1, memo, KeepT(Ev.o))

\* ---- C03: exact solves are judged against the RATIONAL LP with zero tolerances
TVWitnessQ ==
   /\ Ev.a = "witnessQ" /\ Ev.o \in Live
   /\ LET s == objs[Ev.o]  lp == [s.qlp EXCEPT !.offset = s.offsetPar]
          ok == s.hasQ /\
                CASE Ev.kind = "OPT" -> CertFails(lp, Ev.sol, ObjOf(lp, Ev.sol.x), "0", "0", TRUE) = {}
                  [] Ev.kind = "INF" -> FarkasFails(lp, Ev.farkas, "0") = {}
                  [] Ev.kind = "UNB" -> FeasibleExact(lp, Ev.x) /\ RayFails(lp, Ev.ray, "0") = {}
                  [] OTHER -> FALSE
          t == [known |-> TRUE, v |-> Ev.kind, val |-> IF Ev.kind = "OPT" THEN ObjOf(lp, Ev.sol.x) ELSE "0"]
      IN Step(Fail("WitnessInvalid(harness)", ok), Ev.o, s, memo, [KeepT(Ev.o) EXCEPT ![Ev.o] = t])
TVOptimizeQ ==
   /\ Ev.a = "optimizeQ" /\ Ev.o \in Live
   /\ LET s0 == objs[Ev.o]  r == Ev.r  st == Ev.st
          \* in ONLYREAL mode an exact solve first copies the floating-point LP exactly
          q0 == IF s0.hasQ THEN s0.qlp ELSE [s0.rlp EXCEPT !.offset = "0"]
          sq == [s0 EXCEPT !.rlp = [q0 EXCEPT !.offset = s0.offsetPar]]      \* judge against the rational LP (+ objective offset)
          t == KeepT(Ev.o)[Ev.o]
          \* the basis is judged below against the LP the user sees, not inside SolveFails; AbortLeavesBasis is re-stated here
          base == (SolveFails(sq, [r EXCEPT !.hasBasis = FALSE], t, TRUE) \ {"AbortLeavesBasis"})
                  \cup Fail("AbortLeavesBasis", r.status \in {ST_ABORT_ITER, ST_ABORT_VALUE} /\ r.iters > 0 => r.hasBasis)
                  \* a solve that used up its iteration budget reports that, not an unspecified error
                  \cup Fail("LimitReportedAsError", sq.iterlimit >= 0 /\ r.iters >= sq.iterlimit => r.status # ST_ERROR)
          conclusive == r.status \in {ST_OPTIMAL, ST_UNBOUNDED, ST_INFEASIBLE}
          s1 == [s0 EXCEPT !.status = r.status, !.hasSol = r.hasSol, !.hasBasis = r.hasBasis,
                           !.brow = IF r.hasBasis THEN r.brow ELSE <<>>, !.bcol = IF r.hasBasis THEN r.bcol ELSE <<>>,
                           !.rlp.offset = st.offset]
      IN Step(base \cup ProjFails(s1, st) \cup OthersFails(Ev.o)
              \cup (IF r.hasBasis THEN BasisFails(s0.rlp, r.brow, r.bcol) ELSE {})
              \cup Fail("ExactInfeasibleHasFarkas", r.status = ST_INFEASIBLE => r.hasFarkas)
              \cup Fail("ExactUnboundedHasRay", r.status = ST_UNBOUNDED => r.hasRay)
              \cup Fail("ExactDecides", Ev.complete => conclusive)
              \cup Fail("ExactTrueStatus", t.known => (CASE t.v = "OPT" -> r.status = ST_OPTIMAL [] t.v = "INF" -> r.status = ST_INFEASIBLE
                                                          [] t.v = "UNB" -> r.status = ST_UNBOUNDED [] OTHER -> TRUE) \/ ~conclusive),
              Ev.o, s1, memo, KeepT(Ev.o))

\* ---- C14: basis files.  The file written for the source object's basis must be exactly the records of
\* BasisFile!WriteBas, and reading the file (into the same or a new object holding the same LP) must give BasisFile!ReadBas
LptOf(lp) == [rows |-> [i \in 1..NR(lp) |-> [lf |-> BRIsFinite(lp.lhs[i]), uf |-> BRIsFinite(lp.rhs[i]), eq |-> lp.lhs[i] = lp.rhs[i], objNonPos |-> TRUE]],
              cols |-> [j \in 1..NC(lp) |-> [lf |-> BRIsFinite(lp.lo[j]), uf |-> BRIsFinite(lp.up[j]), eq |-> lp.lo[j] = lp.up[j],
                                              objNonPos |-> BRSign(BRMul(IF lp.sense = 1 THEN "1" ELSE "-1", lp.obj[j])) <= 0]]]
IndexOf(names, n) == IF \E k \in 1..Len(names) : names[k] = n THEN (CHOOSE k \in 1..Len(names) : names[k] = n) - 1 ELSE -9
\* file lines (token lists) -> records <<kind, col0, row0>>
FileRecs(file, cn, rn) == [k \in 1..(Len(file) - 2) |-> LET ln == file[k + 1] IN
                             <<ln[1], IndexOf(cn, ln[2]), IF Len(ln) >= 3 THEN IndexOf(rn, ln[3]) ELSE -1>>]
TVBasisFile ==
   /\ Ev.a = "basisFile" /\ Ev.o \in Live /\ Ev.src \in Live
   /\ LET s == objs[Ev.o]  src == objs[Ev.src]  lpt == LptOf(src.rlp)
          shapeOK == Len(Ev.file) >= 2 /\ Ev.file[1][1] = "NAME" /\ Ev.file[Len(Ev.file)] = <<"ENDATA">>
                     /\ \A k \in 2..(Len(Ev.file) - 1) : Len(Ev.file[k]) \in {2, 3}
          recs == FileRecs(Ev.file, Ev.cnames, Ev.rnames)
          expect == BF!WriteBas(lpt, src.brow, src.bcol, Ev.cpx)
          rb == BF!ReadBas(lpt, recs)
          \* readBasisFile re-reads the status from the solver: any non-verdict code
          s1 == [s EXCEPT !.hasBasis = TRUE, !.brow = rb.rows, !.bcol = rb.cols, !.status = Ev.st.status]
      IN Step(IF ~src.hasBasis THEN {"BasisFile:NoBasis(harness)"} ELSE IF ~Ev.wret THEN {"WriteBasisFileFailed"} ELSE IF ~shapeOK THEN {"BasisFile:Shape"} ELSE
              Fail("FileIsWriteBas", recs = expect)
              \cup Fail("ReadBasisFileSucceeds", Ev.rret)
              \cup (IF Ev.rret THEN ProjFails(s1, Ev.st) ELSE {})
              \cup Fail("RestoresSavedBasis", rb.rows = src.brow /\ rb.cols = src.bcol)
              \cup Fail("ReadBasisNoNewVerdict", Ev.st.status = s.status \/ Ev.st.status <= 0),
              Ev.o, s1, memo, KeepT(Ev.o))

\* state files: a new object that loads the three files written by writeStateReal holds the same LP (the MPS writer
\* may turn a maximisation into the equivalent minimisation), the same basis statuses and the same parameters
MPSNormalMax(p) == [p EXCEPT !.sense = -1, !.obj = [j \in 1..NC(p) |-> BRNeg(p.obj[j])]]
TVStateFile ==
   /\ Ev.a = "stateFile" /\ Ev.src \in Live /\ Ev.o \notin Live
   /\ LET src == objs[Ev.src]  st == Ev.st
          shape == StShapeOK(st)
          got == IF shape THEN [LPOfSt(st) EXCEPT !.offset = st.offset] ELSE src.rlp
          sameLP == got = src.rlp \/ (src.rlp.sense = 1 /\ [got EXCEPT !.offset = src.rlp.offset] = MPSNormalMax(src.rlp))
          s1 == [src EXCEPT !.rlp = got, !.status = st.status, !.hasSol = FALSE, !.hasQ = st.hasQ, !.sync = st.sync, !.qlp = IF st.hasQ /\ StShapeOK(st.q) THEN LPOfSt(st.q) ELSE EmptyLP]
      IN Step(IF ~shape THEN {"StShape"} ELSE
              Fail("LoadSettingsFile", Ev.rset) \cup Fail("ReadLPFile", Ev.rlp) \cup Fail("ReadBasisFile", Ev.rbas)
              \cup Fail("StateRestoresLP", sameLP)
              \cup Fail("StateRestoresBasis", st.hasBasis /\ st.brow = src.brow /\ st.bcol = src.bcol)
              \cup Fail("StateRestoresParameters", Ev.pdigNew = Ev.pdigSrc \/ (src.rlp.sense = 1 /\ got.sense = -1))
              \cup Fail("NameSetsMatchDimensions", Ev.nRowNames = NR(got) /\ Ev.nColNames = NC(got)),
              Ev.o, s1, memo, Forget(Ev.o))

\* ---- C12: a written file read back gives an equivalent LP.  Rows and columns are matched BY NAME (the LP reader numbers
\* columns by first appearance); LP format splits a ranged row "n" into "n_1" (>= lhs) and "n_2" (<= rhs); MPS format
\* turns a maximisation into the equivalent minimisation; a column with zero cost that appears in no row is dropped
\* unless the file was written with write-zero-objective.
NumClose(a, b, exact) == \/ a = b
                         \/ ~exact /\ BRIsFinite(a) /\ BRIsFinite(b) /\ BRLeq(BRAbs(BRSub(a, b)), BRAdd("1/1000000000000000", BRMulPow2(BRAbs(a), -50)))
NamedVec(v, names) == { <<names[v[k][1] + 1], v[k][2]>> : k \in 1..Len(v) }
VecClose(A, B, exact) == /\ { e[1] : e \in A } = { e[1] : e \in B }
                         /\ \A e \in A : \E g \in B : g[1] = e[1] /\ NumClose(e[2], g[2], exact)
ExpRows(p, rn, cn, fmt) ==
   UNION { LET v == NamedVec(p.rows[i], cn) IN
           IF fmt = "lp" /\ BRIsFinite(p.lhs[i]) /\ BRIsFinite(p.rhs[i]) /\ p.lhs[i] # p.rhs[i]
           THEN { [name |-> rn[i] \o "_1", lhs |-> p.lhs[i], rhs |-> "inf", vec |-> v], [name |-> rn[i] \o "_2", lhs |-> "-inf", rhs |-> p.rhs[i], vec |-> v] }
           ELSE { [name |-> rn[i], lhs |-> p.lhs[i], rhs |-> p.rhs[i], vec |-> v] }
           : i \in 1..NR(p) }
Droppable(p, j) == p.obj[j] = "0" /\ \A i \in 1..NR(p) : Coef(p.rows[i], j - 1) = "0"
TVFileRoundTrip ==
   /\ Ev.a = "fileRoundTrip" /\ Ev.src \in Live /\ Ev.o \notin Live
   /\ LET src == objs[Ev.src]  st == Ev.st  rational == Ev.mode = "rational"
          p0 == IF rational THEN src.qlp ELSE src.rlp
          flip == Ev.fmt = "mps" /\ p0.sense = 1
          p == IF flip THEN [p0 EXCEPT !.sense = -1, !.obj = [j \in 1..NC(p0) |-> BRNeg(p0.obj[j])]] ELSE p0
          g0 == IF rational THEN st.q ELSE st
          shape == StShapeOK(g0) /\ Len(Ev.rowNames) = g0.nr /\ Len(Ev.colNames) = g0.nc
          g == LPOfSt(g0)
          exact == rational \/ Ev.fmt = "lp"
          erows == ExpRows(p, Ev.srcRowNames, Ev.srcColNames, Ev.fmt)
          grows == { [name |-> Ev.rowNames[i], lhs |-> g.lhs[i], rhs |-> g.rhs[i], vec |-> NamedVec(g.rows[i], Ev.colNames)] : i \in 1..NR(g) }
          keepCols == { j \in 1..NC(p) : Ev.wzo \/ ~Droppable(p, j) }
          s1 == [NewObject EXCEPT !.rlp = [LPOfSt(st) EXCEPT !.offset = st.offset], !.status = st.status, !.hasQ = st.hasQ, !.sync = st.sync,
                                  !.qlp = IF st.hasQ /\ StShapeOK(st.q) THEN LPOfSt(st.q) ELSE EmptyLP, !.epsz = st.epsParam, !.ftol = st.feastolParam]
      IN Step(IF ~Ev.wret THEN {"WriteFileFailed"} ELSE IF ~Ev.rret THEN {"ReadBackFailed"} ELSE IF ~shape THEN {"StShape"} ELSE
              Fail("Sense", g.sense = p.sense)
              \cup Fail("RowNames", { r.name : r \in grows } = { r.name : r \in erows } /\ Cardinality(grows) = NR(g))
              \cup Fail("Rows", \A r \in erows : \E q \in grows : q.name = r.name /\ NumClose(r.lhs, q.lhs, exact) /\ NumClose(r.rhs, q.rhs, exact) /\ VecClose(r.vec, q.vec, exact))
              \cup Fail("ColumnsKept", { Ev.srcColNames[j] : j \in keepCols } \subseteq { Ev.colNames[k] : k \in 1..NC(g) }
                                       /\ { Ev.colNames[k] : k \in 1..NC(g) } \subseteq { Ev.srcColNames[j] : j \in 1..NC(p) } /\ Cardinality({ Ev.colNames[k] : k \in 1..NC(g) }) = NC(g))
              \cup Fail("Columns", \A k \in 1..NC(g) : \A j \in 1..NC(p) : Ev.colNames[k] = Ev.srcColNames[j] =>
                                       NumClose(p.obj[j], g.obj[k], exact) /\ NumClose(p.lo[j], g.lo[k], exact) /\ NumClose(p.up[j], g.up[k], exact))
              \cup (IF rational /\ st.sync = 1 THEN InSyncFails(LPOfSt(st), g) ELSE {}),
              Ev.o, s1, memo, Forget(Ev.o))

\* the dual LP produced by the dual writer has the same optimal value as the primal (witness optimum)
TVDualFile ==
   /\ Ev.a = "dualFile" /\ Ev.o \in Live
   /\ LET s == objs[Ev.o]  t == KeepT(Ev.o)[Ev.o] IN
      Step(Fail("WriteDualFile", Ev.wret) \cup Fail("ReadDualFile", Ev.rret)
           \cup Fail("DualHasSameOptimum", t.known /\ t.v = "OPT" /\ Ev.nr > 0 /\ Ev.nc > 0 =>
                        Ev.status = ST_OPTIMAL /\ BRLeq(BRAbs(BRSub(Ev.objval, t.val)), BRMul("1/100000", BRAdd("1", BRAbs(t.val)))))
           \cup ProjFails(s, Ev.st), Ev.o, s, memo, KeepT(Ev.o))

\* C09 on a bare SPxLPBase: scale (exponents chosen by the code are logged), then unscale
BareLP(b) == [rows |-> b.rows, lhs |-> b.lhs, rhs |-> b.rhs, lo |-> b.lo, up |-> b.up, obj |-> b.maxobj, sense |-> 1, offset |-> "0"]
TVScalerBare ==
   /\ Ev.a = "scalerBare"
   /\ LET p == BareLP(Ev.orig)
          fails == Fail("Unscale:Rows", Ev.back.rows = Ev.orig.rows) \cup Fail("Unscale:Cols", Ev.back.cols = Ev.orig.cols)
                   \cup Fail("Unscale:Lhs", Ev.back.lhs = Ev.orig.lhs) \cup Fail("Unscale:Rhs", Ev.back.rhs = Ev.orig.rhs)
                   \cup Fail("Unscale:Lower", Ev.back.lo = Ev.orig.lo) \cup Fail("Unscale:Upper", Ev.back.up = Ev.orig.up)
                   \cup Fail("Unscale:Obj", Ev.back.maxobj = Ev.orig.maxobj)
                   \cup ScaledFails(p, [hasInternal |-> TRUE, internal |-> [rexp |-> Ev.rexp, cexp |-> Ev.cexp, rows |-> Ev.mid.rows, lhs |-> Ev.mid.lhs,
                                                                             rhs |-> Ev.mid.rhs, lo |-> Ev.mid.lo, up |-> Ev.mid.up, maxobj |-> Ev.mid.maxobj]])
                   \cup Fail("Scaled:ColView", Ev.mid.cols = ColView(BareLP(Ev.mid)))
      IN IF fails = {} THEN UNCHANGED <<objs, memo, truth>> /\ l' = l + 1
         ELSE PrintT(<<"GUARDFAIL", l, Ev.a, fails>>) /\ FALSE

\* ---- C18: the trace of one thread that ran concurrently with others.  Every call in it is validated like any other
\* call (the model of an object depends on that object's own history only: Threads.tla), and the closing event reports the
\* comparison of this trace, byte for byte, with the trace of the same work run alone in the same process.
TVAlone == /\ Ev.a = "alone"
           /\ IF Ev.same THEN UNCHANGED <<objs, memo, truth>> /\ l' = l + 1
              ELSE PrintT(<<"GUARDFAIL", l, Ev.a, {"ThreadResultsSameAsAlone"}>>) /\ FALSE

Init == objs = <<>> /\ memo = NoMemo /\ truth = <<>> /\ l = 1
Next == /\ l <= Len(Tr)
        /\ \/ TVReset \/ TVCreate \/ TVMod \/ TVSetInt \/ TVSetBool \/ TVSetReal \/ TVSetSettingsFrom \/ TVSync \/ TVWitness
           \/ TVOptimize \/ TVSetBasis \/ TVClearBasis \/ TVQueryBasis \/ TVCopy \/ TVDestroy \/ TVScalerBare \/ TVBinv \/ TVBinvQ \/ TVCCall \/ TVReadFile \/ TVReadBasisFuzz \/ TVWitnessQ \/ TVOptimizeQ \/ TVBasisFile \/ TVStateFile \/ TVFileRoundTrip \/ TVDualFile \/ TVAlone
Spec == Init /\ [][Next]_vars

\* acceptance: one state per consumed line plus the initial state
Accepted == TLCGet("stats").diameter - 1 = Len(Tr)
Report == IF Accepted THEN PrintT(<<"ACCEPTED", Len(Tr)>>)
          ELSE PrintT(<<"REJECTED", TLCGet("stats").diameter, Len(Tr)>>) /\ FALSE
=============================================================================
