-------------------------------- MODULE LPSem --------------------------------
(***************************************************************************)
(* What a solve result MEANS for the LP the user entered: certificate       *)
(* predicates evaluated in exact arithmetic on logged values.               *)
(*                                                                         *)
(*   lhs <= A x <= rhs,  lo <= x <= up,  sense * c.x -> max                 *)
(*   sol == [x, s (slacks), y (duals), d (reduced costs)]                   *)
(*                                                                         *)
(* Conventions pinned from the tree (soplex.hpp getDualViolation /          *)
(* getRedCostViolation, solverational.hpp _computeInfeasBox), but stated on *)
(* VALUES instead of SoPlex's own basis statuses:                           *)
(*   minimise: y_i > 0 only if the row sits at lhs_i, y_i < 0 only at rhs_i,*)
(*             d_j > 0 only if x_j = lo_j,           d_j < 0 only at up_j;  *)
(*   maximise: mirrored.   d = c - A^T y.                                    *)
(* Every predicate returns the SET of names of violated guards ({} = ok),   *)
(* so a rejected trace names the guard that failed.                          *)
(***************************************************************************)
EXTENDS LPModel

\* tolerance guard: viol <= t*(1+2^-10) + 2^-40 * magnitude   (DESIGN 2.5)
Slack(t, mag) == BRAdd(BRMul(t, "1025/1024"), BRMulPow2(BRAdd(mag, "1"), -40))
Within(v, t, mag) == BRLeq(v, Slack(t, mag))
Fail(name, ok) == IF ok THEN {} ELSE {name}

Activity(lp, x)    == [i \in 1..NR(lp) |-> BRSpDot(lp.rows[i], x)]
ActivityAbs(lp, x) == [i \in 1..NR(lp) |-> BRSpDotAbs(lp.rows[i], x)]
ObjOf(lp, x)       == BRAdd(BRDot(lp.obj, x), lp.offset)

ShapeOK(lp, sol) == /\ Len(sol.x) = NC(lp) /\ Len(sol.d) = NC(lp)
                    /\ Len(sol.s) = NR(lp) /\ Len(sol.y) = NR(lp)
NoNan(v) == \A k \in 1..Len(v) : ~BRIsNan(v[k]) /\ BRIsFinite(v[k])

\* ---- primal side
PrimalFails(lp, sol, ftol, otol) ==
   LET x == sol.x  act == Activity(lp, x)  aabs == ActivityAbs(lp, x) IN
   UNION {
     UNION { Fail("BoundLo", ~BRIsFinite(lp.lo[j]) \/ Within(BRSub(lp.lo[j], x[j]), ftol, BRAbs(x[j])))
             \cup Fail("BoundUp", ~BRIsFinite(lp.up[j]) \/ Within(BRSub(x[j], lp.up[j]), ftol, BRAbs(x[j])))
             : j \in 1..NC(lp) },
     UNION { Fail("RowLhs", ~BRIsFinite(lp.lhs[i]) \/ Within(BRSub(lp.lhs[i], act[i]), ftol, aabs[i]))
             \cup Fail("RowRhs", ~BRIsFinite(lp.rhs[i]) \/ Within(BRSub(act[i], lp.rhs[i]), ftol, aabs[i]))
             \cup Fail("SlackIsActivity", Within(BRAbs(BRSub(sol.s[i], act[i])), otol, aabs[i]))
             : i \in 1..NR(lp) } }

\* ---- dual side
AtLo(lp, x, j, ftol) == BRIsFinite(lp.lo[j]) /\ Within(BRSub(x[j], lp.lo[j]), ftol, BRAbs(x[j]))
AtUp(lp, x, j, ftol) == BRIsFinite(lp.up[j]) /\ Within(BRSub(lp.up[j], x[j]), ftol, BRAbs(x[j]))
AtLhs(lp, a, m, i, ftol) == BRIsFinite(lp.lhs[i]) /\ Within(BRSub(a, lp.lhs[i]), ftol, m)
AtRhs(lp, a, m, i, ftol) == BRIsFinite(lp.rhs[i]) /\ Within(BRSub(lp.rhs[i], a), ftol, m)
DualFails(lp, sol, ftol, otol) ==
   LET x == sol.x  y == sol.y  d == sol.d
       cols == ColView(lp)
       act == Activity(lp, x)  aabs == ActivityAbs(lp, x)
       sg == IF lp.sense = -1 THEN "1" ELSE "-1"      \* turn everything into the minimisation convention
   IN UNION {
     UNION { LET aty == BRSpDot(cols[j], y)  mag == BRAdd(BRAbs(lp.obj[j]), BRSpDotAbs(cols[j], y))
                 dj == BRMul(sg, d[j]) IN
             Fail("Stationarity", Within(BRAbs(BRSub(d[j], BRSub(lp.obj[j], aty))), otol, mag))
             \cup Fail("RedCostSignLo", ~BRLt(Slack(otol, mag), dj) \/ AtLo(lp, x, j, ftol))
             \cup Fail("RedCostSignUp", ~BRLt(Slack(otol, mag), BRNeg(dj)) \/ AtUp(lp, x, j, ftol))
             : j \in 1..NC(lp) },
     UNION { LET yi == BRMul(sg, y[i]) IN
             Fail("DualSignLhs", ~BRLt(Slack(otol, "0"), yi) \/ AtLhs(lp, act[i], aabs[i], i, ftol))
             \cup Fail("DualSignRhs", ~BRLt(Slack(otol, "0"), BRNeg(yi)) \/ AtRhs(lp, act[i], aabs[i], i, ftol))
             : i \in 1..NR(lp) } }

\* reported objective = c.x + offset (relative 2^-30 for the float interface; exact when tol = 0)
ObjFails(lp, sol, objval, exact) ==
   LET v == ObjOf(lp, sol.x)  mag == BRAdd(BRDotAbs(lp.obj, sol.x), BRAbs(lp.offset)) IN
   Fail("ObjIsCx", IF exact THEN BREq(objval, v)
                   ELSE BRLeq(BRAbs(BRSub(objval, v)), BRMulPow2(BRAdd(mag, "1"), -30)))

\* all guards of an OPTIMAL result
CertFails(lp, sol, objval, ftol, otol, exact) ==
   IF ~ShapeOK(lp, sol) THEN {"Shape"}
   ELSE IF ~(NoNan(sol.x) /\ NoNan(sol.s) /\ NoNan(sol.y) /\ NoNan(sol.d)) THEN {"NonFinite"}
   ELSE PrimalFails(lp, sol, ftol, otol) \cup DualFails(lp, sol, ftol, otol) \cup ObjFails(lp, sol, objval, exact)

\* weak-duality bound on |c.x - optimum| implied by a certificate that passed CertFails
GapBound(lp, sol, ftol, otol) ==
   BRAdd(BRMul("4", BRAdd(BRMul(ftol, BRAdd(BRSumAbs(sol.y), BRSumAbs(sol.d))),
                         BRMul(otol, BRAdd(BRSumAbs(sol.x), BRSumAbs(sol.s))))),
         BRMulPow2(BRAdd(BRDotAbs(lp.obj, sol.x), "1"), -30))

-----------------------------------------------------------------------------
\* Farkas proof (convention of _computeInfeasBox): for lhs <= Ax <= rhs,
\*   sum_i (y_i>0 ? y_i*lhs_i : y_i*rhs_i)  >  max over the box of (y^T A) x
\* with finite sides/bounds wherever the sign of y_i / (y^T A)_j needs them.
\* (an LP with a side or bound at the WRONG infinity - lhs = +inf, rhs = -inf, lower = +inf, upper = -inf, as the readers
\*  accept it from a file - is infeasible whatever the vector says: there is nothing to certify)
WrongInfinity(lp) == (\E i \in 1..NR(lp) : lp.lhs[i] = "inf" \/ lp.rhs[i] = "-inf") \/ (\E j \in 1..NC(lp) : lp.lo[j] = "inf" \/ lp.up[j] = "-inf")
FarkasFails(lp, y, tol) ==
   IF Len(y) # NR(lp) THEN {"Shape"} ELSE IF ~NoNan(y) THEN {"NonFinite"} ELSE IF WrongInfinity(lp) THEN {} ELSE
   LET cols == ColView(lp)
       ya == [j \in 1..NC(lp) |-> BRSpDot(cols[j], y)]
       yamag == [j \in 1..NC(lp) |-> BRSpDotAbs(cols[j], y)]
       \* entries of y^T A within rounding of zero are treated as zero when the needed bound is infinite
       zeroish(j) == Within(BRAbs(ya[j]), tol, yamag[j])
       needLhs(i) == BRSign(y[i]) > 0
       needRhs(i) == BRSign(y[i]) < 0
       sideOK == \A i \in 1..NR(lp) : (needLhs(i) => BRIsFinite(lp.lhs[i]) \/ Within(y[i], tol, "0"))
                                   /\ (needRhs(i) => BRIsFinite(lp.rhs[i]) \/ Within(BRNeg(y[i]), tol, "0"))
       lhsSum == BRSum([i \in 1..NR(lp) |->
                    IF needLhs(i) /\ BRIsFinite(lp.lhs[i]) THEN BRMul(y[i], lp.lhs[i])
                    ELSE IF needRhs(i) /\ BRIsFinite(lp.rhs[i]) THEN BRMul(y[i], lp.rhs[i]) ELSE "0"])
       boxOK == \A j \in 1..NC(lp) : (BRSign(ya[j]) > 0 => BRIsFinite(lp.up[j]) \/ zeroish(j))
                                  /\ (BRSign(ya[j]) < 0 => BRIsFinite(lp.lo[j]) \/ zeroish(j))
       boxMax == BRSum([j \in 1..NC(lp) |->
                    IF BRSign(ya[j]) > 0 /\ BRIsFinite(lp.up[j]) THEN BRMul(ya[j], lp.up[j])
                    ELSE IF BRSign(ya[j]) < 0 /\ BRIsFinite(lp.lo[j]) THEN BRMul(ya[j], lp.lo[j]) ELSE "0"])
   IN Fail("FarkasSides", sideOK) \cup Fail("FarkasBox", boxOK)
      \cup Fail("FarkasMargin", BRLt(boxMax, lhsSum))

\* primal ray: keeps every finite bound and side satisfied, strictly improves the objective
RayFails(lp, r, tol) ==
   IF Len(r) # NC(lp) THEN {"Shape"} ELSE IF ~NoNan(r) THEN {"NonFinite"} ELSE
   LET ar == Activity(lp, r)  am == ActivityAbs(lp, r)
       rmax == BRMaxAbs(r)
       imp == BRMul(IF lp.sense = -1 THEN "-1" ELSE "1", BRDot(lp.obj, r)) IN
   Fail("RayBounds", \A j \in 1..NC(lp) : (BRIsFinite(lp.lo[j]) => Within(BRNeg(r[j]), BRMul(tol, rmax), "0"))
                                       /\ (BRIsFinite(lp.up[j]) => Within(r[j], BRMul(tol, rmax), "0")))
   \cup Fail("RaySides", \A i \in 1..NR(lp) : (BRIsFinite(lp.lhs[i]) => Within(BRNeg(ar[i]), BRMul(tol, rmax), am[i]))
                                          /\ (BRIsFinite(lp.rhs[i]) => Within(ar[i], BRMul(tol, rmax), am[i])))
   \cup Fail("RayImproves", BRSign(imp) > 0)

\* exact feasibility of a witness point
FeasibleExact(lp, x) ==
   /\ Len(x) = NC(lp)
   /\ \A j \in 1..NC(lp) : BRLeq(lp.lo[j], x[j]) /\ BRLeq(x[j], lp.up[j])
   /\ LET a == Activity(lp, x) IN \A i \in 1..NR(lp) : BRLeq(lp.lhs[i], a[i]) /\ BRLeq(a[i], lp.rhs[i])
=============================================================================
