SPECIFICATION Spec
POSTCONDITION Report
CHECK_DEADLOCK FALSE
