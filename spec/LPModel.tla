------------------------------- MODULE LPModel -------------------------------
(***************************************************************************)
(* The reference model of an LP and of every modification entry point of   *)
(* SoPlexBase (real and rational interface share it: numbers are BigRat    *)
(* strings).                                                               *)
(*                                                                         *)
(*   lp == [rows : Seq(SparseVec), lhs, rhs : Seq(Num),      \* one per row *)
(*          lo, up, obj : Seq(Num),                           \* one per col *)
(*          sense : {-1 (minimise), 1 (maximise)}, offset : Num]           *)
(*   SparseVec == sequence of <<index0, value>>, strictly increasing index *)
(*                                                                         *)
(* Semantics pinned from src/soplex/spxlpbase.h: doAddRow / doAddCol create*)
(* missing columns / rows implicitly with the LPColBase()/LPRowBase()      *)
(* defaults; doRemoveRow(i) moves the LAST row to position i; removal by   *)
(* permutation is a stable compaction whose perm out-array gives the new   *)
(* index of every survivor and -1 for removed entries.                     *)
(***************************************************************************)
EXTENDS Integers, Sequences, FiniteSets, BigRat

EmptyLP == [rows |-> <<>>, lhs |-> <<>>, rhs |-> <<>>, lo |-> <<>>, up |-> <<>>, obj |-> <<>>,
            sense |-> -1, offset |-> "0"]
NR(p) == Len(p.rows)
NC(p) == Len(p.lo)

-----------------------------------------------------------------------------
\* sparse vectors
RECURSIVE Ins(_, _)
Ins(v, e) == IF v = <<>> THEN <<e>>
             ELSE IF e[1] < Head(v)[1] THEN <<e>> \o v
             ELSE <<Head(v)>> \o Ins(Tail(v), e)
Drop(v, j)  == LET T(e) == e[1] # j IN SelectSeq(v, T)
Get(v, j)   == LET T(e) == e[1] = j IN SelectSeq(v, T)
Coef(v, j)  == LET g == Get(v, j) IN IF g = <<>> THEN "0" ELSE g[1][2]
SetE(v, j, x) == IF x = "0" THEN Drop(v, j) ELSE Ins(Drop(v, j), <<j, x>>)
Renum(v, from, to) == LET g == Get(v, from) IN
                      IF g = <<>> THEN v ELSE Ins(Drop(v, from), <<to, g[1][2]>>)
MaxIdx(v)   == IF v = <<>> THEN -1 ELSE v[Len(v)][1]
Sorted(v)   == \A k \in 1..(Len(v) - 1) : v[k][1] < v[k+1][1]
NoZero(v)   == \A k \in 1..Len(v) : v[k][2] # "0"
WellFormedVec(v, n) == Sorted(v) /\ NoZero(v) /\ (v # <<>> => v[1][1] >= 0 /\ MaxIdx(v) < n)
DenseOf(v, n) == [j \in 1..n |-> Coef(v, j - 1)]
\* normalise an argument vector the way SVector::add does: explicit zeros are not stored
Nz(v) == LET T(e) == e[2] # "0" IN SelectSeq(v, T)

\* sequences
SwapRemove(s, i) == \* 1-based i: the last element moves to position i
   LET n == Len(s) IN
   IF i = n THEN SubSeq(s, 1, n - 1) ELSE [k \in 1..(n - 1) |-> IF k = i THEN s[n] ELSE s[k]]
Pad(s, n, d) == s \o [k \in 1..(n - Len(s)) |-> d]
Keep(s, perm) == \* stable compaction; perm[i] < 0 <=> removed
   LET f[i \in 0..Len(perm)] == IF i = 0 THEN <<>> ELSE IF perm[i] >= 0 THEN Append(f[i-1], s[i]) ELSE f[i-1]
   IN f[Len(perm)]
NewPerm(perm) == [i \in 1..Len(perm) |->
                    IF perm[i] < 0 THEN -1 ELSE Cardinality({k \in 1..(i-1) : perm[k] >= 0})]
IdxToPerm(idx, n) == [i \in 1..n |-> IF \E k \in 1..Len(idx) : idx[k] = i - 1 THEN -1 ELSE i - 1]
RangeToPerm(start, end, n) == [i \in 1..n |-> IF i - 1 >= start /\ i - 1 <= end THEN -1 ELSE i - 1]

-----------------------------------------------------------------------------
\* views
ColView(p) == [j \in 1..NC(p) |->
                 LET f[i \in 0..NR(p)] ==
                       IF i = 0 THEN <<>>
                       ELSE LET g == Get(p.rows[i], j - 1) IN
                            IF g = <<>> THEN f[i-1] ELSE Append(f[i-1], <<i - 1, g[1][2]>>)
                 IN f[NR(p)]]
NNZ(p) == LET f[i \in 0..NR(p)] == IF i = 0 THEN 0 ELSE f[i-1] + Len(p.rows[i]) IN f[NR(p)]
WellFormed(p) ==
   /\ Len(p.lhs) = NR(p) /\ Len(p.rhs) = NR(p) /\ Len(p.up) = NC(p) /\ Len(p.obj) = NC(p)
   /\ \A i \in 1..NR(p) : WellFormedVec(p.rows[i], NC(p))
   /\ p.sense \in {-1, 1}
\* row type as LPRowBase::type(): 0 LESS_EQUAL, 1 EQUAL, 2 GREATER_EQUAL, 3 RANGE
RowType(l, r) == IF BRIsFinite(l) /\ BRIsFinite(r) THEN (IF l = r THEN 1 ELSE 3)
                 ELSE IF BRIsFinite(r) THEN 0 ELSE 2
\* SoPlexBase::RangeType: 0 FREE, 1 LOWER, 2 UPPER, 3 BOXED, 4 FIXED
\* "has a lower bound" means l > -inf, "has an upper bound" u < +inf (a degenerate upper bound -inf still is an upper bound)
RangeType(l, u) == IF l # "-inf" THEN (IF u # "inf" THEN (IF l = u THEN 4 ELSE 3) ELSE 1)
                   ELSE IF u # "inf" THEN 2 ELSE 0

-----------------------------------------------------------------------------
\* additions (implicit creation of the other dimension: LPColBase() = obj 0, [0, inf); LPRowBase() = [0, inf))
GrowCols(p, n) == IF n <= NC(p) THEN p
                  ELSE [p EXCEPT !.lo = Pad(@, n, "0"), !.up = Pad(@, n, "inf"), !.obj = Pad(@, n, "0")]
GrowRows(p, n) == IF n <= NR(p) THEN p
                  ELSE [p EXCEPT !.rows = Pad(@, n, <<>>), !.lhs = Pad(@, n, "0"), !.rhs = Pad(@, n, "inf")]
AddRow(p, lhs, vec0, rhs) ==
   LET vec == Nz(vec0)  q == GrowCols(p, MaxIdx(vec) + 1) IN
   [q EXCEPT !.rows = Append(@, vec), !.lhs = Append(@, lhs), !.rhs = Append(@, rhs)]
RECURSIVE PutCol(_, _, _)
PutCol(rows, vec, j) == IF vec = <<>> THEN rows
                        ELSE PutCol([rows EXCEPT ![Head(vec)[1] + 1] = Ins(@, <<j, Head(vec)[2]>>)], Tail(vec), j)
AddCol(p, obj, lo, vec0, up) ==
   LET vec == Nz(vec0)  q == GrowRows(p, MaxIdx(vec) + 1) IN
   [q EXCEPT !.rows = PutCol(@, vec, NC(q)), !.lo = Append(@, lo), !.up = Append(@, up), !.obj = Append(@, obj)]
RECURSIVE AddRows(_, _)
AddRows(p, rs) == IF rs = <<>> THEN p ELSE AddRows(AddRow(p, Head(rs).lhs, Head(rs).vec, Head(rs).rhs), Tail(rs))
RECURSIVE AddCols(_, _)
AddCols(p, cs) == IF cs = <<>> THEN p
                  ELSE AddCols(AddCol(p, Head(cs).obj, Head(cs).lo, Head(cs).vec, Head(cs).up), Tail(cs))

\* removals
RemoveRow(p, i) == [p EXCEPT !.rows = SwapRemove(@, i + 1), !.lhs = SwapRemove(@, i + 1), !.rhs = SwapRemove(@, i + 1)]
RemoveCol(p, j) ==
   LET last == NC(p) - 1 IN
   [p EXCEPT !.rows = [r \in 1..NR(p) |-> IF j = last THEN Drop(p.rows[r], j) ELSE Renum(Drop(p.rows[r], j), last, j)],
             !.lo = SwapRemove(@, j + 1), !.up = SwapRemove(@, j + 1), !.obj = SwapRemove(@, j + 1)]
RemoveRowsPerm(p, perm) == [p EXCEPT !.rows = Keep(@, perm), !.lhs = Keep(@, perm), !.rhs = Keep(@, perm)]
RenumVec(v, np) == \* np: new index per old index (1-based seq), -1 = removed; order is preserved by stable compaction
   LET f[k \in 0..Len(v)] == IF k = 0 THEN <<>>
                             ELSE IF np[v[k][1] + 1] < 0 THEN f[k-1] ELSE Append(f[k-1], <<np[v[k][1] + 1], v[k][2]>>)
   IN f[Len(v)]
RemoveColsPerm(p, perm) ==
   LET np == NewPerm(perm) IN
   [p EXCEPT !.rows = [r \in 1..NR(p) |-> RenumVec(p.rows[r], np)],
             !.lo = Keep(@, perm), !.up = Keep(@, perm), !.obj = Keep(@, perm)]

\* changes
ChangeRow(p, i, lhs, vec0, rhs) ==
   LET vec == Nz(vec0)  q == GrowCols(p, MaxIdx(vec) + 1) IN
   [q EXCEPT !.rows[i + 1] = vec, !.lhs[i + 1] = lhs, !.rhs[i + 1] = rhs]
ChangeCol(p, j, obj, lo, vec0, up) ==
   LET vec == Nz(vec0)  q == GrowRows(p, MaxIdx(vec) + 1) IN
   [q EXCEPT !.rows = PutCol([r \in 1..NR(q) |-> Drop(q.rows[r], j)], vec, j),
             !.lo[j + 1] = lo, !.up[j + 1] = up, !.obj[j + 1] = obj]
ChangeElement(p, i, j, x) == [p EXCEPT !.rows[i + 1] = SetE(@, j, x)]
ChangeSense(p, s) == [p EXCEPT !.sense = s]
ClearLP(p) == [EmptyLP EXCEPT !.sense = p.sense, !.offset = p.offset]

-----------------------------------------------------------------------------
\* algebraic laws checked by MC_LPModel
Transpose(cols, nr) == [i \in 1..nr |->
                 LET f[j \in 0..Len(cols)] ==
                       IF j = 0 THEN <<>>
                       ELSE LET g == Get(cols[j], i - 1) IN
                            IF g = <<>> THEN f[j-1] ELSE Append(f[j-1], <<j - 1, g[1][2]>>)
                 IN f[Len(cols)]]
Mirror(p) == Transpose(ColView(p), NR(p)) = p.rows
=============================================================================
