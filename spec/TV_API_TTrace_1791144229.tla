---- MODULE TV_API_TTrace_1791144229 ----
EXTENDS Sequences, TV_API, TLCExt, Toolbox, Naturals, TLC

_expression ==
    LET TV_API_TEExpression == INSTANCE TV_API_TEExpression
    IN TV_API_TEExpression!expression
----

_trace ==
    LET TV_API_TETrace == INSTANCE TV_API_TETrace
    IN TV_API_TETrace!trace
----

_inv ==
    ~(
        TLCGet("level") = Len(_TETrace)
        /\
        truth = ((0 :> [known |-> FALSE, v |-> "", val |-> "0"]))
        /\
        memo = ([v |-> <<>>, d |-> <<>>])
        /\
        l = (29)
        /\
        objs = ((0 :> [rlp |-> [rows |-> <<<<<<0, "1">>>>, <<<<0, "-6004799503160661/9007199254740992">>>>>>, lhs |-> <<"-2573485501354569/9007199254740992", "6004799503160661/18014398509481984">>, rhs |-> <<"inf", "6004799503160661/18014398509481984">>, lo |-> <<"-2">>, up |-> <<"-6004799503160661/9007199254740992">>, obj |-> <<"2">>, sense |-> -1, offset |-> "0"], offsetPar |-> "0", epsz |-> "2028240960365167/20282409603651670423947251286016", ftol |-> "0", sync |-> 1, hasQ |-> TRUE, qlp |-> [rows |-> <<<<<<0, "1">>>>, <<<<0, "-2/3">>>>>>, lhs |-> <<"-2/7", "1/3">>, rhs |-> <<"inf", "1/3">>, lo |-> <<"-2">>, up |-> <<"-2/3">>, obj |-> <<"2">>, sense |-> -1, offset |-> "0"], status |-> 0, hasSol |-> FALSE, hasBasis |-> TRUE, brow |-> <<4, 4>>, bcol |-> <<1>>, iterlimit |-> -1, ensureray |-> FALSE, otol |-> "0", tlimit |-> "20", objlo |-> "-inf", objup |-> "inf"]))
    )
----

_init ==
    /\ l = _TETrace[1].l
    /\ truth = _TETrace[1].truth
    /\ objs = _TETrace[1].objs
    /\ memo = _TETrace[1].memo
----

_next ==
    /\ \E i,j \in DOMAIN _TETrace:
        /\ \/ /\ j = i + 1
              /\ i = TLCGet("level")
        /\ l  = _TETrace[i].l
        /\ l' = _TETrace[j].l
        /\ truth  = _TETrace[i].truth
        /\ truth' = _TETrace[j].truth
        /\ objs  = _TETrace[i].objs
        /\ objs' = _TETrace[j].objs
        /\ memo  = _TETrace[i].memo
        /\ memo' = _TETrace[j].memo

\* Uncomment the ASSUME below to write the states of the error trace
\* to the given file in Json format. Note that you can pass any tuple
\* to `JsonSerialize`. For example, a sub-sequence of _TETrace.
    \* ASSUME
    \*     LET J == INSTANCE Json
    \*         IN J!JsonSerialize("TV_API_TTrace_1791144229.json", _TETrace)

=============================================================================

 Note that you can extract this module `TV_API_TEExpression`
  to a dedicated file to reuse `expression` (the module in the 
  dedicated `TV_API_TEExpression.tla` file takes precedence 
  over the module `TV_API_TEExpression` below).

---- MODULE TV_API_TEExpression ----
EXTENDS Sequences, TV_API, TLCExt, Toolbox, Naturals, TLC

expression == 
    [
        \* To hide variables of the `TV_API` spec from the error trace,
        \* remove the variables below.  The trace will be written in the order
        \* of the fields of this record.
        l |-> l
        ,truth |-> truth
        ,objs |-> objs
        ,memo |-> memo
        
        \* Put additional constant-, state-, and action-level expressions here:
        \* ,_stateNumber |-> _TEPosition
        \* ,_lUnchanged |-> l = l'
        
        \* Format the `l` variable as Json value.
        \* ,_lJson |->
        \*     LET J == INSTANCE Json
        \*     IN J!ToJson(l)
        
        \* Lastly, you may build expressions over arbitrary sets of states by
        \* leveraging the _TETrace operator.  For example, this is how to
        \* count the number of times a spec variable changed up to the current
        \* state in the trace.
        \* ,_lModCount |->
        \*     LET F[s \in DOMAIN _TETrace] ==
        \*         IF s = 1 THEN 0
        \*         ELSE IF _TETrace[s].l # _TETrace[s-1].l
        \*             THEN 1 + F[s-1] ELSE F[s-1]
        \*     IN F[_TEPosition - 1]
    ]

=============================================================================



Parsing and semantic processing can take forever if the trace below is long.
 In this case, it is advised to uncomment the module below to deserialize the
 trace from a generated binary file.

\*
\*---- MODULE TV_API_TETrace ----
\*EXTENDS IOUtils, TV_API, TLC
\*
\*trace == IODeserialize("TV_API_TTrace_1791144229.bin", TRUE)
\*
\*=============================================================================
\*

---- MODULE TV_API_TETrace ----
EXTENDS TV_API, TLC

trace == 
    <<
    ([truth |-> <<>>,memo |-> [v |-> <<>>, d |-> <<>>],l |-> 1,objs |-> <<>>]),
    ([truth |-> <<>>,memo |-> [v |-> <<>>, d |-> <<>>],l |-> 2,objs |-> <<>>]),
    ([truth |-> (0 :> [known |-> FALSE, v |-> "", val |-> "0"]),memo |-> [v |-> <<>>, d |-> <<>>],l |-> 3,objs |-> (0 :> [rlp |-> [rows |-> <<>>, lhs |-> <<>>, rhs |-> <<>>, lo |-> <<>>, up |-> <<>>, obj |-> <<>>, sense |-> 1, offset |-> "0"], offsetPar |-> "0", epsz |-> "2028240960365167/20282409603651670423947251286016", ftol |-> "4722366482869645/4722366482869645213696", sync |-> 0, hasQ |-> FALSE, qlp |-> [rows |-> <<>>, lhs |-> <<>>, rhs |-> <<>>, lo |-> <<>>, up |-> <<>>, obj |-> <<>>, sense |-> -1, offset |-> "0"], status |-> 0, hasSol |-> FALSE, hasBasis |-> FALSE, brow |-> <<>>, bcol |-> <<>>, iterlimit |-> -1, ensureray |-> FALSE, otol |-> "1/1000000", tlimit |-> "inf", objlo |-> "-inf", objup |-> "inf"])]),
    ([truth |-> (0 :> [known |-> FALSE, v |-> "", val |-> "0"]),memo |-> [v |-> <<>>, d |-> <<>>],l |-> 4,objs |-> (0 :> [rlp |-> [rows |-> <<>>, lhs |-> <<>>, rhs |-> <<>>, lo |-> <<>>, up |-> <<>>, obj |-> <<>>, sense |-> 1, offset |-> "0"], offsetPar |-> "0", epsz |-> "2028240960365167/20282409603651670423947251286016", ftol |-> "4722366482869645/4722366482869645213696", sync |-> 1, hasQ |-> TRUE, qlp |-> [rows |-> <<>>, lhs |-> <<>>, rhs |-> <<>>, lo |-> <<>>, up |-> <<>>, obj |-> <<>>, sense |-> 1, offset |-> "0"], status |-> 0, hasSol |-> FALSE, hasBasis |-> FALSE, brow |-> <<>>, bcol |-> <<>>, iterlimit |-> -1, ensureray |-> FALSE, otol |-> "1/1000000", tlimit |-> "inf", objlo |-> "-inf", objup |-> "inf"])]),
    ([truth |-> (0 :> [known |-> FALSE, v |-> "", val |-> "0"]),memo |-> [v |-> <<>>, d |-> <<>>],l |-> 5,objs |-> (0 :> [rlp |-> [rows |-> <<>>, lhs |-> <<>>, rhs |-> <<>>, lo |-> <<>>, up |-> <<>>, obj |-> <<>>, sense |-> 1, offset |-> "0"], offsetPar |-> "0", epsz |-> "2028240960365167/20282409603651670423947251286016", ftol |-> "4722366482869645/4722366482869645213696", sync |-> 1, hasQ |-> TRUE, qlp |-> [rows |-> <<>>, lhs |-> <<>>, rhs |-> <<>>, lo |-> <<>>, up |-> <<>>, obj |-> <<>>, sense |-> 1, offset |-> "0"], status |-> 0, hasSol |-> FALSE, hasBasis |-> FALSE, brow |-> <<>>, bcol |-> <<>>, iterlimit |-> -1, ensureray |-> FALSE, otol |-> "1/1000000", tlimit |-> "inf", objlo |-> "-inf", objup |-> "inf"])]),
    ([truth |-> (0 :> [known |-> FALSE, v |-> "", val |-> "0"]),memo |-> [v |-> <<>>, d |-> <<>>],l |-> 6,objs |-> (0 :> [rlp |-> [rows |-> <<>>, lhs |-> <<>>, rhs |-> <<>>, lo |-> <<>>, up |-> <<>>, obj |-> <<>>, sense |-> 1, offset |-> "0"], offsetPar |-> "0", epsz |-> "2028240960365167/20282409603651670423947251286016", ftol |-> "4722366482869645/4722366482869645213696", sync |-> 1, hasQ |-> TRUE, qlp |-> [rows |-> <<>>, lhs |-> <<>>, rhs |-> <<>>, lo |-> <<>>, up |-> <<>>, obj |-> <<>>, sense |-> 1, offset |-> "0"], status |-> 0, hasSol |-> FALSE, hasBasis |-> FALSE, brow |-> <<>>, bcol |-> <<>>, iterlimit |-> -1, ensureray |-> FALSE, otol |-> "1/1000000", tlimit |-> "inf", objlo |-> "-inf", objup |-> "inf"])]),
    ([truth |-> (0 :> [known |-> FALSE, v |-> "", val |-> "0"]),memo |-> [v |-> <<>>, d |-> <<>>],l |-> 7,objs |-> (0 :> [rlp |-> [rows |-> <<>>, lhs |-> <<>>, rhs |-> <<>>, lo |-> <<>>, up |-> <<>>, obj |-> <<>>, sense |-> 1, offset |-> "0"], offsetPar |-> "0", epsz |-> "2028240960365167/20282409603651670423947251286016", ftol |-> "0", sync |-> 1, hasQ |-> TRUE, qlp |-> [rows |-> <<>>, lhs |-> <<>>, rhs |-> <<>>, lo |-> <<>>, up |-> <<>>, obj |-> <<>>, sense |-> 1, offset |-> "0"], status |-> 0, hasSol |-> FALSE, hasBasis |-> FALSE, brow |-> <<>>, bcol |-> <<>>, iterlimit |-> -1, ensureray |-> FALSE, otol |-> "1/1000000", tlimit |-> "inf", objlo |-> "-inf", objup |-> "inf"])]),
    ([truth |-> (0 :> [known |-> FALSE, v |-> "", val |-> "0"]),memo |-> [v |-> <<>>, d |-> <<>>],l |-> 8,objs |-> (0 :> [rlp |-> [rows |-> <<>>, lhs |-> <<>>, rhs |-> <<>>, lo |-> <<>>, up |-> <<>>, obj |-> <<>>, sense |-> 1, offset |-> "0"], offsetPar |-> "0", epsz |-> "2028240960365167/20282409603651670423947251286016", ftol |-> "0", sync |-> 1, hasQ |-> TRUE, qlp |-> [rows |-> <<>>, lhs |-> <<>>, rhs |-> <<>>, lo |-> <<>>, up |-> <<>>, obj |-> <<>>, sense |-> 1, offset |-> "0"], status |-> 0, hasSol |-> FALSE, hasBasis |-> FALSE, brow |-> <<>>, bcol |-> <<>>, iterlimit |-> -1, ensureray |-> FALSE, otol |-> "0", tlimit |-> "inf", objlo |-> "-inf", objup |-> "inf"])]),
    ([truth |-> (0 :> [known |-> FALSE, v |-> "", val |-> "0"]),memo |-> [v |-> <<>>, d |-> <<>>],l |-> 9,objs |-> (0 :> [rlp |-> [rows |-> <<>>, lhs |-> <<>>, rhs |-> <<>>, lo |-> <<>>, up |-> <<>>, obj |-> <<>>, sense |-> 1, offset |-> "0"], offsetPar |-> "0", epsz |-> "2028240960365167/20282409603651670423947251286016", ftol |-> "0", sync |-> 1, hasQ |-> TRUE, qlp |-> [rows |-> <<>>, lhs |-> <<>>, rhs |-> <<>>, lo |-> <<>>, up |-> <<>>, obj |-> <<>>, sense |-> 1, offset |-> "0"], status |-> 0, hasSol |-> FALSE, hasBasis |-> FALSE, brow |-> <<>>, bcol |-> <<>>, iterlimit |-> -1, ensureray |-> FALSE, otol |-> "0", tlimit |-> "20", objlo |-> "-inf", objup |-> "inf"])]),
    ([truth |-> (0 :> [known |-> FALSE, v |-> "", val |-> "0"]),memo |-> [v |-> <<>>, d |-> <<>>],l |-> 10,objs |-> (0 :> [rlp |-> [rows |-> <<>>, lhs |-> <<>>, rhs |-> <<>>, lo |-> <<>>, up |-> <<>>, obj |-> <<>>, sense |-> -1, offset |-> "0"], offsetPar |-> "0", epsz |-> "2028240960365167/20282409603651670423947251286016", ftol |-> "0", sync |-> 1, hasQ |-> TRUE, qlp |-> [rows |-> <<>>, lhs |-> <<>>, rhs |-> <<>>, lo |-> <<>>, up |-> <<>>, obj |-> <<>>, sense |-> -1, offset |-> "0"], status |-> 0, hasSol |-> FALSE, hasBasis |-> FALSE, brow |-> <<>>, bcol |-> <<>>, iterlimit |-> -1, ensureray |-> FALSE, otol |-> "0", tlimit |-> "20", objlo |-> "-inf", objup |-> "inf"])]),
    ([truth |-> (0 :> [known |-> FALSE, v |-> "", val |-> "0"]),memo |-> [v |-> <<>>, d |-> <<>>],l |-> 11,objs |-> (0 :> [rlp |-> [rows |-> <<>>, lhs |-> <<>>, rhs |-> <<>>, lo |-> <<"-2">>, up |-> <<"inf">>, obj |-> <<"-3">>, sense |-> -1, offset |-> "0"], offsetPar |-> "0", epsz |-> "2028240960365167/20282409603651670423947251286016", ftol |-> "0", sync |-> 1, hasQ |-> TRUE, qlp |-> [rows |-> <<>>, lhs |-> <<>>, rhs |-> <<>>, lo |-> <<"-2">>, up |-> <<"inf">>, obj |-> <<"-3">>, sense |-> -1, offset |-> "0"], status |-> 0, hasSol |-> FALSE, hasBasis |-> FALSE, brow |-> <<>>, bcol |-> <<>>, iterlimit |-> -1, ensureray |-> FALSE, otol |-> "0", tlimit |-> "20", objlo |-> "-inf", objup |-> "inf"])]),
    ([truth |-> (0 :> [known |-> FALSE, v |-> "", val |-> "0"]),memo |-> [v |-> <<>>, d |-> <<>>],l |-> 12,objs |-> (0 :> [rlp |-> [rows |-> <<<<>>, <<<<0, "-6004799503160661/9007199254740992">>>>, <<<<0, "1">>>>>>, lhs |-> <<"-1", "-inf", "-6004799503160661/2251799813685248">>, rhs |-> <<"6004799503160661/18014398509481984", "inf", "inf">>, lo |-> <<"-2">>, up |-> <<"inf">>, obj |-> <<"-3">>, sense |-> -1, offset |-> "0"], offsetPar |-> "0", epsz |-> "2028240960365167/20282409603651670423947251286016", ftol |-> "0", sync |-> 1, hasQ |-> TRUE, qlp |-> [rows |-> <<<<>>, <<<<0, "-2/3">>>>, <<<<0, "1">>>>>>, lhs |-> <<"-1", "-inf", "-8/3">>, rhs |-> <<"1/3", "inf", "inf">>, lo |-> <<"-2">>, up |-> <<"inf">>, obj |-> <<"-3">>, sense |-> -1, offset |-> "0"], status |-> 0, hasSol |-> FALSE, hasBasis |-> FALSE, brow |-> <<>>, bcol |-> <<>>, iterlimit |-> -1, ensureray |-> FALSE, otol |-> "0", tlimit |-> "20", objlo |-> "-inf", objup |-> "inf"])]),
    ([truth |-> (0 :> [known |-> TRUE, v |-> "UNB", val |-> "0"]),memo |-> [v |-> <<>>, d |-> <<>>],l |-> 13,objs |-> (0 :> [rlp |-> [rows |-> <<<<>>, <<<<0, "-6004799503160661/9007199254740992">>>>, <<<<0, "1">>>>>>, lhs |-> <<"-1", "-inf", "-6004799503160661/2251799813685248">>, rhs |-> <<"6004799503160661/18014398509481984", "inf", "inf">>, lo |-> <<"-2">>, up |-> <<"inf">>, obj |-> <<"-3">>, sense |-> -1, offset |-> "0"], offsetPar |-> "0", epsz |-> "2028240960365167/20282409603651670423947251286016", ftol |-> "0", sync |-> 1, hasQ |-> TRUE, qlp |-> [rows |-> <<<<>>, <<<<0, "-2/3">>>>, <<<<0, "1">>>>>>, lhs |-> <<"-1", "-inf", "-8/3">>, rhs |-> <<"1/3", "inf", "inf">>, lo |-> <<"-2">>, up |-> <<"inf">>, obj |-> <<"-3">>, sense |-> -1, offset |-> "0"], status |-> 0, hasSol |-> FALSE, hasBasis |-> FALSE, brow |-> <<>>, bcol |-> <<>>, iterlimit |-> -1, ensureray |-> FALSE, otol |-> "0", tlimit |-> "20", objlo |-> "-inf", objup |-> "inf"])]),
    ([truth |-> (0 :> [known |-> TRUE, v |-> "UNB", val |-> "0"]),memo |-> [v |-> <<>>, d |-> <<>>],l |-> 14,objs |-> (0 :> [rlp |-> [rows |-> <<<<>>, <<<<0, "-6004799503160661/9007199254740992">>>>, <<<<0, "1">>>>>>, lhs |-> <<"-1", "-inf", "-6004799503160661/2251799813685248">>, rhs |-> <<"6004799503160661/18014398509481984", "inf", "inf">>, lo |-> <<"-2">>, up |-> <<"inf">>, obj |-> <<"-3">>, sense |-> -1, offset |-> "0"], offsetPar |-> "0", epsz |-> "2028240960365167/20282409603651670423947251286016", ftol |-> "0", sync |-> 1, hasQ |-> TRUE, qlp |-> [rows |-> <<<<>>, <<<<0, "-2/3">>>>, <<<<0, "1">>>>>>, lhs |-> <<"-1", "-inf", "-8/3">>, rhs |-> <<"1/3", "inf", "inf">>, lo |-> <<"-2">>, up |-> <<"inf">>, obj |-> <<"-3">>, sense |-> -1, offset |-> "0"], status |-> 2, hasSol |-> TRUE, hasBasis |-> TRUE, brow |-> <<4, 4, 4>>, bcol |-> <<1>>, iterlimit |-> -1, ensureray |-> FALSE, otol |-> "0", tlimit |-> "20", objlo |-> "-inf", objup |-> "inf"])]),
    ([truth |-> (0 :> [known |-> TRUE, v |-> "UNB", val |-> "0"]),memo |-> [v |-> <<>>, d |-> <<>>],l |-> 15,objs |-> (0 :> [rlp |-> [rows |-> <<<<>>, <<<<0, "-6004799503160661/9007199254740992">>>>, <<<<0, "1">>>>>>, lhs |-> <<"-1", "-inf", "-6004799503160661/2251799813685248">>, rhs |-> <<"6004799503160661/18014398509481984", "inf", "inf">>, lo |-> <<"-2">>, up |-> <<"inf">>, obj |-> <<"-3">>, sense |-> -1, offset |-> "0"], offsetPar |-> "0", epsz |-> "2028240960365167/20282409603651670423947251286016", ftol |-> "0", sync |-> 1, hasQ |-> TRUE, qlp |-> [rows |-> <<<<>>, <<<<0, "-2/3">>>>, <<<<0, "1">>>>>>, lhs |-> <<"-1", "-inf", "-8/3">>, rhs |-> <<"1/3", "inf", "inf">>, lo |-> <<"-2">>, up |-> <<"inf">>, obj |-> <<"-3">>, sense |-> -1, offset |-> "0"], status |-> 2, hasSol |-> TRUE, hasBasis |-> TRUE, brow |-> <<4, 4, 4>>, bcol |-> <<1>>, iterlimit |-> -1, ensureray |-> FALSE, otol |-> "0", tlimit |-> "20", objlo |-> "-inf", objup |-> "inf"])]),
    ([truth |-> (0 :> [known |-> TRUE, v |-> "UNB", val |-> "0"]),memo |-> [v |-> <<>>, d |-> <<>>],l |-> 16,objs |-> (0 :> [rlp |-> [rows |-> <<<<>>, <<<<0, "-6004799503160661/9007199254740992">>>>, <<<<0, "1">>>>>>, lhs |-> <<"-1", "-inf", "-6004799503160661/2251799813685248">>, rhs |-> <<"6004799503160661/18014398509481984", "inf", "inf">>, lo |-> <<"-2">>, up |-> <<"inf">>, obj |-> <<"-3">>, sense |-> -1, offset |-> "0"], offsetPar |-> "0", epsz |-> "2028240960365167/20282409603651670423947251286016", ftol |-> "0", sync |-> 1, hasQ |-> TRUE, qlp |-> [rows |-> <<<<>>, <<<<0, "-2/3">>>>, <<<<0, "1">>>>>>, lhs |-> <<"-1", "-inf", "-8/3">>, rhs |-> <<"1/3", "inf", "inf">>, lo |-> <<"-2">>, up |-> <<"inf">>, obj |-> <<"-3">>, sense |-> -1, offset |-> "0"], status |-> 2, hasSol |-> TRUE, hasBasis |-> TRUE, brow |-> <<4, 4, 4>>, bcol |-> <<1>>, iterlimit |-> -1, ensureray |-> FALSE, otol |-> "0", tlimit |-> "20", objlo |-> "-inf", objup |-> "inf"])]),
    ([truth |-> (0 :> [known |-> FALSE, v |-> "", val |-> "0"]),memo |-> [v |-> <<>>, d |-> <<>>],l |-> 17,objs |-> (0 :> [rlp |-> [rows |-> <<<<>>, <<<<0, "-6004799503160661/9007199254740992">>>>, <<<<0, "1">>>>>>, lhs |-> <<"-1", "-inf", "-6004799503160661/2251799813685248">>, rhs |-> <<"6004799503160661/18014398509481984", "inf", "inf">>, lo |-> <<"-2">>, up |-> <<"-6004799503160661/9007199254740992">>, obj |-> <<"-3">>, sense |-> -1, offset |-> "0"], offsetPar |-> "0", epsz |-> "2028240960365167/20282409603651670423947251286016", ftol |-> "0", sync |-> 1, hasQ |-> TRUE, qlp |-> [rows |-> <<<<>>, <<<<0, "-2/3">>>>, <<<<0, "1">>>>>>, lhs |-> <<"-1", "-inf", "-8/3">>, rhs |-> <<"1/3", "inf", "inf">>, lo |-> <<"-2">>, up |-> <<"-2/3">>, obj |-> <<"-3">>, sense |-> -1, offset |-> "0"], status |-> 0, hasSol |-> FALSE, hasBasis |-> TRUE, brow |-> <<4, 4, 4>>, bcol |-> <<1>>, iterlimit |-> -1, ensureray |-> FALSE, otol |-> "0", tlimit |-> "20", objlo |-> "-inf", objup |-> "inf"])]),
    ([truth |-> (0 :> [known |-> FALSE, v |-> "", val |-> "0"]),memo |-> [v |-> <<>>, d |-> <<>>],l |-> 18,objs |-> (0 :> [rlp |-> [rows |-> <<<<>>, <<<<0, "-6004799503160661/9007199254740992">>>>, <<<<0, "1">>>>>>, lhs |-> <<"-1", "-inf", "-6004799503160661/2251799813685248">>, rhs |-> <<"6004799503160661/18014398509481984", "inf", "inf">>, lo |-> <<"-2">>, up |-> <<"-6004799503160661/9007199254740992">>, obj |-> <<"2">>, sense |-> -1, offset |-> "0"], offsetPar |-> "0", epsz |-> "2028240960365167/20282409603651670423947251286016", ftol |-> "0", sync |-> 1, hasQ |-> TRUE, qlp |-> [rows |-> <<<<>>, <<<<0, "-2/3">>>>, <<<<0, "1">>>>>>, lhs |-> <<"-1", "-inf", "-8/3">>, rhs |-> <<"1/3", "inf", "inf">>, lo |-> <<"-2">>, up |-> <<"-2/3">>, obj |-> <<"2">>, sense |-> -1, offset |-> "0"], status |-> 0, hasSol |-> FALSE, hasBasis |-> TRUE, brow |-> <<4, 4, 4>>, bcol |-> <<1>>, iterlimit |-> -1, ensureray |-> FALSE, otol |-> "0", tlimit |-> "20", objlo |-> "-inf", objup |-> "inf"])]),
    ([truth |-> (0 :> [known |-> FALSE, v |-> "", val |-> "0"]),memo |-> [v |-> <<>>, d |-> <<>>],l |-> 19,objs |-> (0 :> [rlp |-> [rows |-> <<<<>>, <<<<0, "-6004799503160661/9007199254740992">>>>, <<<<0, "1">>>>>>, lhs |-> <<"-1", "-inf", "-6004799503160661/2251799813685248">>, rhs |-> <<"6004799503160661/18014398509481984", "inf", "inf">>, lo |-> <<"-2">>, up |-> <<"-6004799503160661/9007199254740992">>, obj |-> <<"2">>, sense |-> -1, offset |-> "0"], offsetPar |-> "0", epsz |-> "2028240960365167/20282409603651670423947251286016", ftol |-> "0", sync |-> 1, hasQ |-> TRUE, qlp |-> [rows |-> <<<<>>, <<<<0, "-2/3">>>>, <<<<0, "1">>>>>>, lhs |-> <<"-1", "-inf", "-8/3">>, rhs |-> <<"1/3", "inf", "inf">>, lo |-> <<"-2">>, up |-> <<"-2/3">>, obj |-> <<"2">>, sense |-> -1, offset |-> "0"], status |-> 0, hasSol |-> FALSE, hasBasis |-> TRUE, brow |-> <<4, 4, 4>>, bcol |-> <<0>>, iterlimit |-> -1, ensureray |-> FALSE, otol |-> "0", tlimit |-> "20", objlo |-> "-inf", objup |-> "inf"])]),
    ([truth |-> (0 :> [known |-> FALSE, v |-> "", val |-> "0"]),memo |-> [v |-> <<>>, d |-> <<>>],l |-> 20,objs |-> (0 :> [rlp |-> [rows |-> <<<<>>, <<<<0, "-6004799503160661/9007199254740992">>>>, <<<<0, "1">>>>>>, lhs |-> <<"-1", "-inf", "-6004799503160661/2251799813685248">>, rhs |-> <<"6004799503160661/18014398509481984", "inf", "inf">>, lo |-> <<"-2">>, up |-> <<"-6004799503160661/9007199254740992">>, obj |-> <<"2">>, sense |-> -1, offset |-> "0"], offsetPar |-> "0", epsz |-> "2028240960365167/20282409603651670423947251286016", ftol |-> "0", sync |-> 1, hasQ |-> TRUE, qlp |-> [rows |-> <<<<>>, <<<<0, "-2/3">>>>, <<<<0, "1">>>>>>, lhs |-> <<"-1", "-inf", "-8/3">>, rhs |-> <<"1/3", "inf", "inf">>, lo |-> <<"-2">>, up |-> <<"-2/3">>, obj |-> <<"2">>, sense |-> -1, offset |-> "0"], status |-> 0, hasSol |-> FALSE, hasBasis |-> TRUE, brow |-> <<4, 4, 4>>, bcol |-> <<0>>, iterlimit |-> -1, ensureray |-> FALSE, otol |-> "0", tlimit |-> "20", objlo |-> "-inf", objup |-> "inf"])]),
    ([truth |-> (0 :> [known |-> FALSE, v |-> "", val |-> "0"]),memo |-> [v |-> <<>>, d |-> <<>>],l |-> 21,objs |-> (0 :> [rlp |-> [rows |-> <<<<>>, <<<<0, "-6004799503160661/9007199254740992">>>>, <<<<0, "1">>>>>>, lhs |-> <<"-1", "-inf", "-6004799503160661/2251799813685248">>, rhs |-> <<"6004799503160661/18014398509481984", "inf", "inf">>, lo |-> <<"-2">>, up |-> <<"-6004799503160661/9007199254740992">>, obj |-> <<"2">>, sense |-> -1, offset |-> "0"], offsetPar |-> "0", epsz |-> "2028240960365167/20282409603651670423947251286016", ftol |-> "0", sync |-> 1, hasQ |-> TRUE, qlp |-> [rows |-> <<<<>>, <<<<0, "-2/3">>>>, <<<<0, "1">>>>>>, lhs |-> <<"-1", "-inf", "-8/3">>, rhs |-> <<"1/3", "inf", "inf">>, lo |-> <<"-2">>, up |-> <<"-2/3">>, obj |-> <<"2">>, sense |-> -1, offset |-> "0"], status |-> 0, hasSol |-> FALSE, hasBasis |-> TRUE, brow |-> <<4, 4, 4>>, bcol |-> <<0>>, iterlimit |-> -1, ensureray |-> FALSE, otol |-> "0", tlimit |-> "20", objlo |-> "-inf", objup |-> "inf"])]),
    ([truth |-> (0 :> [known |-> FALSE, v |-> "", val |-> "0"]),memo |-> [v |-> <<>>, d |-> <<>>],l |-> 22,objs |-> (0 :> [rlp |-> [rows |-> <<<<>>, <<<<0, "-6004799503160661/9007199254740992">>>>, <<<<0, "1">>>>>>, lhs |-> <<"-1", "-inf", "-6004799503160661/2251799813685248">>, rhs |-> <<"6004799503160661/18014398509481984", "inf", "inf">>, lo |-> <<"-2">>, up |-> <<"-6004799503160661/9007199254740992">>, obj |-> <<"2">>, sense |-> -1, offset |-> "0"], offsetPar |-> "0", epsz |-> "2028240960365167/20282409603651670423947251286016", ftol |-> "0", sync |-> 1, hasQ |-> TRUE, qlp |-> [rows |-> <<<<>>, <<<<0, "-2/3">>>>, <<<<0, "1">>>>>>, lhs |-> <<"-1", "-inf", "-8/3">>, rhs |-> <<"1/3", "inf", "inf">>, lo |-> <<"-2">>, up |-> <<"-2/3">>, obj |-> <<"2">>, sense |-> -1, offset |-> "0"], status |-> 0, hasSol |-> FALSE, hasBasis |-> TRUE, brow |-> <<4, 4, 4>>, bcol |-> <<0>>, iterlimit |-> -1, ensureray |-> FALSE, otol |-> "0", tlimit |-> "20", objlo |-> "-inf", objup |-> "inf"])]),
    ([truth |-> (0 :> [known |-> FALSE, v |-> "", val |-> "0"]),memo |-> [v |-> <<>>, d |-> <<>>],l |-> 23,objs |-> (0 :> [rlp |-> [rows |-> <<<<>>, <<<<0, "-6004799503160661/9007199254740992">>>>, <<<<0, "1">>>>>>, lhs |-> <<"2", "6004799503160661/18014398509481984", "-2573485501354569/9007199254740992">>, rhs |-> <<"2", "6004799503160661/18014398509481984", "inf">>, lo |-> <<"-2">>, up |-> <<"-6004799503160661/9007199254740992">>, obj |-> <<"2">>, sense |-> -1, offset |-> "0"], offsetPar |-> "0", epsz |-> "2028240960365167/20282409603651670423947251286016", ftol |-> "0", sync |-> 1, hasQ |-> TRUE, qlp |-> [rows |-> <<<<>>, <<<<0, "-2/3">>>>, <<<<0, "1">>>>>>, lhs |-> <<"2", "1/3", "-2/7">>, rhs |-> <<"2", "1/3", "inf">>, lo |-> <<"-2">>, up |-> <<"-2/3">>, obj |-> <<"2">>, sense |-> -1, offset |-> "0"], status |-> 0, hasSol |-> FALSE, hasBasis |-> TRUE, brow |-> <<4, 4, 4>>, bcol |-> <<0>>, iterlimit |-> -1, ensureray |-> FALSE, otol |-> "0", tlimit |-> "20", objlo |-> "-inf", objup |-> "inf"])]),
    ([truth |-> (0 :> [known |-> FALSE, v |-> "", val |-> "0"]),memo |-> [v |-> <<>>, d |-> <<>>],l |-> 24,objs |-> (0 :> [rlp |-> [rows |-> <<<<>>, <<<<0, "-6004799503160661/9007199254740992">>>>, <<<<0, "1">>>>>>, lhs |-> <<"2", "6004799503160661/18014398509481984", "-2573485501354569/9007199254740992">>, rhs |-> <<"2", "6004799503160661/18014398509481984", "inf">>, lo |-> <<"-2">>, up |-> <<"-6004799503160661/9007199254740992">>, obj |-> <<"2">>, sense |-> -1, offset |-> "0"], offsetPar |-> "0", epsz |-> "2028240960365167/20282409603651670423947251286016", ftol |-> "0", sync |-> 1, hasQ |-> TRUE, qlp |-> [rows |-> <<<<>>, <<<<0, "-2/3">>>>, <<<<0, "1">>>>>>, lhs |-> <<"2", "1/3", "-2/7">>, rhs |-> <<"2", "1/3", "inf">>, lo |-> <<"-2">>, up |-> <<"-2/3">>, obj |-> <<"2">>, sense |-> -1, offset |-> "0"], status |-> 3, hasSol |-> TRUE, hasBasis |-> TRUE, brow |-> <<4, 4, 4>>, bcol |-> <<0>>, iterlimit |-> -1, ensureray |-> FALSE, otol |-> "0", tlimit |-> "20", objlo |-> "-inf", objup |-> "inf"])]),
    ([truth |-> (0 :> [known |-> FALSE, v |-> "", val |-> "0"]),memo |-> [v |-> <<>>, d |-> <<>>],l |-> 25,objs |-> (0 :> [rlp |-> [rows |-> <<<<>>, <<<<0, "-6004799503160661/9007199254740992">>>>, <<<<0, "1">>>>>>, lhs |-> <<"2", "6004799503160661/18014398509481984", "-2573485501354569/9007199254740992">>, rhs |-> <<"2", "6004799503160661/18014398509481984", "inf">>, lo |-> <<"-2">>, up |-> <<"-6004799503160661/9007199254740992">>, obj |-> <<"2">>, sense |-> -1, offset |-> "0"], offsetPar |-> "0", epsz |-> "2028240960365167/20282409603651670423947251286016", ftol |-> "0", sync |-> 1, hasQ |-> TRUE, qlp |-> [rows |-> <<<<>>, <<<<0, "-2/3">>>>, <<<<0, "1">>>>>>, lhs |-> <<"2", "1/3", "-2/7">>, rhs |-> <<"2", "1/3", "inf">>, lo |-> <<"-2">>, up |-> <<"-2/3">>, obj |-> <<"2">>, sense |-> -1, offset |-> "0"], status |-> 3, hasSol |-> TRUE, hasBasis |-> TRUE, brow |-> <<4, 4, 4>>, bcol |-> <<0>>, iterlimit |-> -1, ensureray |-> FALSE, otol |-> "0", tlimit |-> "20", objlo |-> "-inf", objup |-> "inf"])]),
    ([truth |-> (0 :> [known |-> FALSE, v |-> "", val |-> "0"]),memo |-> [v |-> <<>>, d |-> <<>>],l |-> 26,objs |-> (0 :> [rlp |-> [rows |-> <<<<<<0, "-2">>>>, <<<<0, "-6004799503160661/9007199254740992">>>>, <<<<0, "1">>>>>>, lhs |-> <<"-1", "6004799503160661/18014398509481984", "-2573485501354569/9007199254740992">>, rhs |-> <<"0", "6004799503160661/18014398509481984", "inf">>, lo |-> <<"-2">>, up |-> <<"-6004799503160661/9007199254740992">>, obj |-> <<"2">>, sense |-> -1, offset |-> "0"], offsetPar |-> "0", epsz |-> "2028240960365167/20282409603651670423947251286016", ftol |-> "0", sync |-> 1, hasQ |-> TRUE, qlp |-> [rows |-> <<<<<<0, "-2">>>>, <<<<0, "-2/3">>>>, <<<<0, "1">>>>>>, lhs |-> <<"-1", "1/3", "-2/7">>, rhs |-> <<"0", "1/3", "inf">>, lo |-> <<"-2">>, up |-> <<"-2/3">>, obj |-> <<"2">>, sense |-> -1, offset |-> "0"], status |-> 0, hasSol |-> FALSE, hasBasis |-> TRUE, brow |-> <<4, 4, 4>>, bcol |-> <<1>>, iterlimit |-> -1, ensureray |-> FALSE, otol |-> "0", tlimit |-> "20", objlo |-> "-inf", objup |-> "inf"])]),
    ([truth |-> (0 :> [known |-> FALSE, v |-> "", val |-> "0"]),memo |-> [v |-> <<>>, d |-> <<>>],l |-> 27,objs |-> (0 :> [rlp |-> [rows |-> <<<<<<0, "-2">>>>, <<<<0, "-6004799503160661/9007199254740992">>>>, <<<<0, "1">>>>>>, lhs |-> <<"-1", "6004799503160661/18014398509481984", "-2573485501354569/9007199254740992">>, rhs |-> <<"-6004799503160661/9007199254740992", "6004799503160661/18014398509481984", "inf">>, lo |-> <<"-2">>, up |-> <<"-6004799503160661/9007199254740992">>, obj |-> <<"2">>, sense |-> -1, offset |-> "0"], offsetPar |-> "0", epsz |-> "2028240960365167/20282409603651670423947251286016", ftol |-> "0", sync |-> 1, hasQ |-> TRUE, qlp |-> [rows |-> <<<<<<0, "-2">>>>, <<<<0, "-2/3">>>>, <<<<0, "1">>>>>>, lhs |-> <<"-1", "1/3", "-2/7">>, rhs |-> <<"-2/3", "1/3", "inf">>, lo |-> <<"-2">>, up |-> <<"-2/3">>, obj |-> <<"2">>, sense |-> -1, offset |-> "0"], status |-> 0, hasSol |-> FALSE, hasBasis |-> TRUE, brow |-> <<4, 4, 4>>, bcol |-> <<1>>, iterlimit |-> -1, ensureray |-> FALSE, otol |-> "0", tlimit |-> "20", objlo |-> "-inf", objup |-> "inf"])]),
    ([truth |-> (0 :> [known |-> FALSE, v |-> "", val |-> "0"]),memo |-> [v |-> <<>>, d |-> <<>>],l |-> 28,objs |-> (0 :> [rlp |-> [rows |-> <<<<<<0, "-2">>>>, <<<<0, "-6004799503160661/9007199254740992">>>>, <<<<0, "1">>>>>>, lhs |-> <<"-1", "6004799503160661/18014398509481984", "-2573485501354569/9007199254740992">>, rhs |-> <<"-6004799503160661/9007199254740992", "6004799503160661/18014398509481984", "inf">>, lo |-> <<"-2">>, up |-> <<"-6004799503160661/9007199254740992">>, obj |-> <<"2">>, sense |-> -1, offset |-> "0"], offsetPar |-> "0", epsz |-> "2028240960365167/20282409603651670423947251286016", ftol |-> "0", sync |-> 1, hasQ |-> TRUE, qlp |-> [rows |-> <<<<<<0, "-2">>>>, <<<<0, "-2/3">>>>, <<<<0, "1">>>>>>, lhs |-> <<"-1", "1/3", "-2/7">>, rhs |-> <<"-2/3", "1/3", "inf">>, lo |-> <<"-2">>, up |-> <<"-2/3">>, obj |-> <<"2">>, sense |-> -1, offset |-> "0"], status |-> 0, hasSol |-> FALSE, hasBasis |-> TRUE, brow |-> <<4, 4, 4>>, bcol |-> <<1>>, iterlimit |-> -1, ensureray |-> FALSE, otol |-> "0", tlimit |-> "20", objlo |-> "-inf", objup |-> "inf"])]),
    ([truth |-> (0 :> [known |-> FALSE, v |-> "", val |-> "0"]),memo |-> [v |-> <<>>, d |-> <<>>],l |-> 29,objs |-> (0 :> [rlp |-> [rows |-> <<<<<<0, "1">>>>, <<<<0, "-6004799503160661/9007199254740992">>>>>>, lhs |-> <<"-2573485501354569/9007199254740992", "6004799503160661/18014398509481984">>, rhs |-> <<"inf", "6004799503160661/18014398509481984">>, lo |-> <<"-2">>, up |-> <<"-6004799503160661/9007199254740992">>, obj |-> <<"2">>, sense |-> -1, offset |-> "0"], offsetPar |-> "0", epsz |-> "2028240960365167/20282409603651670423947251286016", ftol |-> "0", sync |-> 1, hasQ |-> TRUE, qlp |-> [rows |-> <<<<<<0, "1">>>>, <<<<0, "-2/3">>>>>>, lhs |-> <<"-2/7", "1/3">>, rhs |-> <<"inf", "1/3">>, lo |-> <<"-2">>, up |-> <<"-2/3">>, obj |-> <<"2">>, sense |-> -1, offset |-> "0"], status |-> 0, hasSol |-> FALSE, hasBasis |-> TRUE, brow |-> <<4, 4>>, bcol |-> <<1>>, iterlimit |-> -1, ensureray |-> FALSE, otol |-> "0", tlimit |-> "20", objlo |-> "-inf", objup |-> "inf"])])
    >>
----


=============================================================================

---- CONFIG TV_API_TTrace_1791144229 ----

INVARIANT
    _inv

CHECK_DEADLOCK
    \* CHECK_DEADLOCK off because of PROPERTY or INVARIANT above.
    FALSE

INIT
    _init

NEXT
    _next

CONSTANT
    _TETrace <- _trace

ALIAS
    _expression
=============================================================================
\* Generated on Sun Oct 04 20:03:51 UTC 2026