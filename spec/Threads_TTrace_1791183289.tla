---- MODULE Threads_TTrace_1791183289 ----
EXTENDS Threads_TEConstants, Threads, Sequences, TLCExt, Toolbox, Naturals, TLC

_expression ==
    LET Threads_TEExpression == INSTANCE Threads_TEExpression
    IN Threads_TEExpression!expression
----

_trace ==
    LET Threads_TETrace == INSTANCE Threads_TETrace
    IN Threads_TETrace!trace
----

_inv ==
    ~(
        TLCGet("level") = Len(_TETrace)
        /\
        obs = ((t1 :> 50 @@ t2 :> 0))
        /\
        ops = ((t1 :> 3 @@ t2 :> 1))
        /\
        global = (50)
        /\
        tls = ((t1 :> 57 @@ t2 :> 50))
        /\
        boosts = ((t1 :> 1 @@ t2 :> -1))
    )
----

_init ==
    /\ ops = _TETrace[1].ops
    /\ global = _TETrace[1].global
    /\ tls = _TETrace[1].tls
    /\ boosts = _TETrace[1].boosts
    /\ obs = _TETrace[1].obs
----

_next ==
    /\ \E i,j \in DOMAIN _TETrace:
        /\ \/ /\ j = i + 1
              /\ i = TLCGet("level")
        /\ ops  = _TETrace[i].ops
        /\ ops' = _TETrace[j].ops
        /\ global  = _TETrace[i].global
        /\ global' = _TETrace[j].global
        /\ tls  = _TETrace[i].tls
        /\ tls' = _TETrace[j].tls
        /\ boosts  = _TETrace[i].boosts
        /\ boosts' = _TETrace[j].boosts
        /\ obs  = _TETrace[i].obs
        /\ obs' = _TETrace[j].obs

\* Uncomment the ASSUME below to write the states of the error trace
\* to the given file in Json format. Note that you can pass any tuple
\* to `JsonSerialize`. For example, a sub-sequence of _TETrace.
    \* ASSUME
    \*     LET J == INSTANCE Json
    \*         IN J!JsonSerialize("Threads_TTrace_1791183289.json", _TETrace)

=============================================================================

 Note that you can extract this module `Threads_TEExpression`
  to a dedicated file to reuse `expression` (the module in the 
  dedicated `Threads_TEExpression.tla` file takes precedence 
  over the module `Threads_TEExpression` below).

---- MODULE Threads_TEExpression ----
EXTENDS Threads_TEConstants, Threads, Sequences, TLCExt, Toolbox, Naturals, TLC

expression == 
    [
        \* To hide variables of the `Threads` spec from the error trace,
        \* remove the variables below.  The trace will be written in the order
        \* of the fields of this record.
        ops |-> ops
        ,global |-> global
        ,tls |-> tls
        ,boosts |-> boosts
        ,obs |-> obs
        
        \* Put additional constant-, state-, and action-level expressions here:
        \* ,_stateNumber |-> _TEPosition
        \* ,_opsUnchanged |-> ops = ops'
        
        \* Format the `ops` variable as Json value.
        \* ,_opsJson |->
        \*     LET J == INSTANCE Json
        \*     IN J!ToJson(ops)
        
        \* Lastly, you may build expressions over arbitrary sets of states by
        \* leveraging the _TETrace operator.  For example, this is how to
        \* count the number of times a spec variable changed up to the current
        \* state in the trace.
        \* ,_opsModCount |->
        \*     LET F[s \in DOMAIN _TETrace] ==
        \*         IF s = 1 THEN 0
        \*         ELSE IF _TETrace[s].ops # _TETrace[s-1].ops
        \*             THEN 1 + F[s-1] ELSE F[s-1]
        \*     IN F[_TEPosition - 1]
    ]

=============================================================================



Parsing and semantic processing can take forever if the trace below is long.
 In this case, it is advised to uncomment the module below to deserialize the
 trace from a generated binary file.

\*
\*---- MODULE Threads_TETrace ----
\*EXTENDS Threads_TEConstants, Threads, IOUtils, TLC
\*
\*trace == IODeserialize("Threads_TTrace_1791183289.bin", TRUE)
\*
\*=============================================================================
\*

---- MODULE Threads_TETrace ----
EXTENDS Threads_TEConstants, Threads, TLC

trace == 
    <<
    ([obs |-> (t1 :> 0 @@ t2 :> 0),ops |-> (t1 :> 0 @@ t2 :> 0),global |-> 50,tls |-> (t1 :> 50 @@ t2 :> 50),boosts |-> (t1 :> -1 @@ t2 :> -1)]),
    ([obs |-> (t1 :> 0 @@ t2 :> 0),ops |-> (t1 :> 1 @@ t2 :> 0),global |-> 50,tls |-> (t1 :> 50 @@ t2 :> 50),boosts |-> (t1 :> 0 @@ t2 :> -1)]),
    ([obs |-> (t1 :> 0 @@ t2 :> 0),ops |-> (t1 :> 2 @@ t2 :> 0),global |-> 57,tls |-> (t1 :> 57 @@ t2 :> 50),boosts |-> (t1 :> 1 @@ t2 :> -1)]),
    ([obs |-> (t1 :> 0 @@ t2 :> 0),ops |-> (t1 :> 2 @@ t2 :> 1),global |-> 50,tls |-> (t1 :> 57 @@ t2 :> 50),boosts |-> (t1 :> 1 @@ t2 :> -1)]),
    ([obs |-> (t1 :> 50 @@ t2 :> 0),ops |-> (t1 :> 3 @@ t2 :> 1),global |-> 50,tls |-> (t1 :> 57 @@ t2 :> 50),boosts |-> (t1 :> 1 @@ t2 :> -1)])
    >>
----


=============================================================================

---- MODULE Threads_TEConstants ----
EXTENDS Threads

CONSTANTS t1, t2

=============================================================================

---- CONFIG Threads_TTrace_1791183289 ----
CONSTANTS
    Thread = { t1 , t2 }
    MaxOps = 4
    Design = "process"
    InitialPrec = 50
    Limit = 300
    t1 = t1
    t2 = t2

INVARIANT
    _inv

CHECK_DEADLOCK
    \* CHECK_DEADLOCK off because of PROPERTY or INVARIANT above.
    FALSE

INIT
    _init

NEXT
    _next

CONSTANT
    _TETrace <- _trace

ALIAS
    _expression
=============================================================================
\* Generated on Mon Oct 05 06:54:49 UTC 2026