---------------------------- MODULE TV_Presolve ----------------------------
(***************************************************************************)
(* C08: the internal simplifier (SPxMainSM) run stand-alone on an LP with a  *)
(* known, exactly verified status, as a three-state machine                  *)
(*      Loaded --simplify--> Simplified(result, reduced LP, offset)          *)
(*             --unsimplify(vertex of the reduced LP)--> Postsolved          *)
(* A verdict (INFEASIBLE / UNBOUNDED / DUAL_INFEASIBLE / VANISHED) must be   *)
(* true of the ORIGINAL LP.  For OKAY every optimal basic solution of the    *)
(* reduced LP (enumerated by the driver in exact arithmetic, re-verified     *)
(* here) must be mapped by unsimplify() to primal, slack, dual and           *)
(* reduced-cost vectors that are feasible and optimal for the original LP,   *)
(* with the same objective value (up to the objective offset), and to a      *)
(* valid, regular basis of the original LP.                                  *)
(***************************************************************************)
EXTENDS SoPlexAPI, Json, IOUtils, TLC, SequencesExt
Tr == ndJsonDeserialize(IOEnv.TRACE)
VARIABLES ps, l
vars == <<ps, l>>
Ev == Tr[l]
Step(fails, new) == IF fails = {} THEN ps' = new /\ l' = l + 1 ELSE PrintT(<<"GUARDFAIL", l, Ev.a, fails>>) /\ FALSE
LPOf(r) == [rows |-> r.rows, lhs |-> r.lhs, rhs |-> r.rhs, lo |-> r.lo, up |-> r.up, obj |-> r.obj, sense |-> r.sense, offset |-> "0"]
Tol == "1/1000000"                 \* the default feasibility / optimality tolerance of SoPlex
None == [phase |-> "none", lp |-> EmptyLP, kind |-> "", optval |-> "0", result |-> -1, red |-> EmptyLP, offset |-> "0"]
TVReset == Ev.a = "Reset" /\ ps' = None /\ l' = l + 1
\* the original LP with an independently constructed witness of its status, verified exactly before it is believed
TVLoad ==
   /\ Ev.a = "plp"
   /\ LET lp == LPOf(Ev.lp)
          ok == CASE Ev.kind = "OPT" -> CertFails(lp, Ev.sol, ObjOf(lp, Ev.sol.x), "0", "0", TRUE) = {}
                  [] Ev.kind = "INF" -> FarkasFails(lp, Ev.farkas, "0") = {}
                  [] Ev.kind = "UNB" -> FeasibleExact(lp, Ev.x) /\ RayFails(lp, Ev.ray, "0") = {}
                  [] OTHER -> FALSE
      IN Step(Fail("WitnessInvalid(harness)", ok),
              [phase |-> "loaded", lp |-> lp, kind |-> Ev.kind, optval |-> IF Ev.kind = "OPT" THEN ObjOf(lp, Ev.sol.x) ELSE "0",
               result |-> -1, red |-> lp, offset |-> "0"])
\* SPxSimplifier::Result: OKAY 0, INFEASIBLE 1, DUAL_INFEASIBLE 2, UNBOUNDED 3, VANISHED 4
TVSimplify ==
   /\ Ev.a = "simplify" /\ ps.phase \in {"loaded", "simplified", "postsolved"}
   /\ Step(Fail("ResultCode", Ev.result \in 0..4)
           \cup Fail("InfeasibleVerdictTrue", Ev.result = 1 => ps.kind = "INF")
           \cup Fail("UnboundedVerdictTrue", Ev.result = 3 => ps.kind = "UNB")
           \cup Fail("DualInfeasibleVerdictTrue", Ev.result = 2 => ps.kind \in {"UNB", "INF"})
           \cup Fail("VanishedOnlyIfSolvable", Ev.result = 4 => ps.kind = "OPT")
           \cup Fail("InputUntouchedOnVerdict(harness)", TRUE),
           [ps EXCEPT !.phase = "simplified", !.result = Ev.result, !.red = LPOf(Ev.red), !.offset = Ev.offset])
\* one optimal basic solution of the reduced LP (or nothing at all if the LP vanished) pushed through unsimplify()
TVUnsimplify ==
   /\ Ev.a = "unsimp" /\ ps.phase \in {"simplified", "postsolved"} /\ ps.result \in {0, 4}
   /\ LET red == ps.red  lp == ps.lp  in == Ev.inq  out == Ev.out
          redval == BRAdd(ObjOf(red, in.x), ps.offset)
          outval == ObjOf(lp, out.x)
          premise == CertFails(red, in, ObjOf(red, in.x), "0", "0", TRUE) \cup BasisFails(red, in.brow, in.bcol)
          bind == SetToSeq({j - 1 : j \in {jj \in 1..Len(out.bcol) : out.bcol[jj] = BASIC}} \cup {-i : i \in {ii \in 1..Len(out.brow) : out.brow[ii] = BASIC}})
          basis == BasisFails(lp, out.brow, out.bcol)
      IN IF Ev.threw THEN Step({}, [ps EXCEPT !.phase = "postsolved"])              \* unsimplify() may give up with an exception: the caller re-solves
         ELSE Step({ "ReducedVertexNotOptimal(harness):" \o n : n \in premise }
              \cup Fail("InputIsRoundedVertex(harness)", SeqImage(in.x, Ev.in.x) /\ SeqImage(in.s, Ev.in.s) /\ SeqImage(in.y, Ev.in.y) /\ SeqImage(in.d, Ev.in.d))
              \cup Fail("ReducedOptimalOnlyIfOriginalSolvable", ps.kind = "OPT")
              \cup { "Postsolved:" \o n : n \in CertFails(lp, out, outval, Tol, Tol, FALSE) }
              \cup Fail("SameObjectiveValue", ps.result = 4 \/ BRLeq(BRAbs(BRSub(redval, outval)), BRAdd(BRMul(Tol, BRAdd(BRAbs(redval), "1")), GapBound(lp, out, Tol, Tol))))
              \cup Fail("OptimalValueOfOriginal", ps.kind = "OPT" => BRLeq(BRAbs(BRSub(ps.optval, outval)), BRAdd(BRMul(Tol, BRAdd(BRAbs(ps.optval), "1")), GapBound(lp, out, Tol, Tol))))
              \cup { "Basis:" \o n : n \in basis }
              \cup (IF basis = {} THEN Fail("BasisRegular", BRDet(BasisMatrix(lp, bind)) # "0") ELSE {}),
              [ps EXCEPT !.phase = "postsolved"])
Init == ps = None /\ l = 1
Next == l <= Len(Tr) /\ (TVReset \/ TVLoad \/ TVSimplify \/ TVUnsimplify)
Spec == Init /\ [][Next]_vars
Accepted == TLCGet("stats").diameter - 1 = Len(Tr)
Report == IF Accepted THEN PrintT(<<"ACCEPTED", Len(Tr)>>) ELSE PrintT(<<"REJECTED", TLCGet("stats").diameter, Len(Tr)>>) /\ FALSE
=============================================================================
