---- MODULE TVSlice_proto ----
EXTENDS Integers, Sequences, FiniteSets, TLC, Json, IOUtils
\* scratch vertical slice: LPModel operators + trace spec for 8 modification entry points
Tr == ndJsonDeserialize(IOEnv.TRACE)
VARIABLES lp, l
vars == <<lp, l>>
EmptyLP == [rows |-> <<>>, lhs |-> <<>>, rhs |-> <<>>, lo |-> <<>>, up |-> <<>>, obj |-> <<>>]
NR(p) == Len(p.rows)
NC(p) == Len(p.lo)

\* ---- helpers on sparse vectors: sequences of <<idx0, val>> sorted by idx0 (0-based indices)
RECURSIVE Ins(_, _)
Ins(v, e) == IF v = <<>> THEN <<e>> ELSE IF e[1] < Head(v)[1] THEN <<e>> \o v ELSE <<Head(v)>> \o Ins(Tail(v), e)
SelSeq(v, T(_)) == SelectSeq(v, T)
Drop(v, j) == LET T(e) == e[1] # j IN SelectSeq(v, T)
Get(v, j) == LET T(e) == e[1] = j IN SelectSeq(v, T)
SetE(v, j, x) == IF x = "0" THEN Drop(v, j) ELSE Ins(Drop(v, j), <<j, x>>)
Renum(v, from, to) == LET g == Get(v, from) IN IF g = <<>> THEN v ELSE Ins(Drop(v, from), <<to, g[1][2]>>)
MaxIdx(v) == IF v = <<>> THEN -1 ELSE v[Len(v)][1]
SwapRemove(s, i) == \* 1-based i: last moves to i
   LET n == Len(s) IN IF i = n THEN SubSeq(s, 1, n-1) ELSE [k \in 1..(n-1) |-> IF k = i THEN s[n] ELSE s[k]]
Pad(s, n, d) == s \o [k \in 1..(n - Len(s)) |-> d]

\* ---- LPModel operators
GrowCols(p, n) == IF n <= NC(p) THEN p ELSE [p EXCEPT !.lo = Pad(@, n, "0"), !.up = Pad(@, n, "inf"), !.obj = Pad(@, n, "0")]
GrowRows(p, n) == IF n <= NR(p) THEN p ELSE [p EXCEPT !.rows = Pad(@, n, <<>>), !.lhs = Pad(@, n, "0"), !.rhs = Pad(@, n, "inf")]
AddRow(p, lhs, vec, rhs) == LET q == GrowCols(p, MaxIdx(vec) + 1) IN
   [q EXCEPT !.rows = Append(@, vec), !.lhs = Append(@, lhs), !.rhs = Append(@, rhs)]
RECURSIVE PutCol(_, _, _)
PutCol(rows, vec, j) == IF vec = <<>> THEN rows ELSE
   PutCol([rows EXCEPT ![Head(vec)[1] + 1] = Ins(@, <<j, Head(vec)[2]>>)], Tail(vec), j)
AddCol(p, obj, lo, vec, up) == LET q == GrowRows(p, MaxIdx(vec) + 1) IN
   [q EXCEPT !.rows = PutCol(@, vec, NC(q)), !.lo = Append(@, lo), !.up = Append(@, up), !.obj = Append(@, obj)]
RemoveRow(p, i) == [p EXCEPT !.rows = SwapRemove(@, i+1), !.lhs = SwapRemove(@, i+1), !.rhs = SwapRemove(@, i+1)]
RemoveCol(p, j) == LET last == NC(p) - 1 IN
   [p EXCEPT !.rows = [r \in 1..NR(p) |-> IF j = last THEN Drop(p.rows[r], j) ELSE Renum(Drop(p.rows[r], j), last, j)],
             !.lo = SwapRemove(@, j+1), !.up = SwapRemove(@, j+1), !.obj = SwapRemove(@, j+1)]
ChangeElement(p, i, j, x) == [p EXCEPT !.rows[i+1] = SetE(@, j, x)]
\* stable compaction: perm[i] < 0 removed
NewPerm(perm) == [i \in 1..Len(perm) |-> IF perm[i] < 0 THEN -1 ELSE Cardinality({k \in 1..(i-1) : perm[k] >= 0})]
Keep(s, perm) == LET idx == {i \in 1..Len(perm) : perm[i] >= 0}
                     f[i \in 0..Len(perm)] == IF i = 0 THEN <<>> ELSE IF perm[i] >= 0 THEN Append(f[i-1], s[i]) ELSE f[i-1]
                 IN f[Len(perm)]
RemoveRows(p, perm) == [p EXCEPT !.rows = Keep(@, perm), !.lhs = Keep(@, perm), !.rhs = Keep(@, perm)]
ColView(p) == [j \in 1..NC(p) |-> LET f[i \in 0..NR(p)] == IF i = 0 THEN <<>> ELSE
                                       LET g == Get(p.rows[i], j-1) IN IF g = <<>> THEN f[i-1] ELSE Append(f[i-1], <<i-1, g[1][2]>>)
                                  IN f[NR(p)]]
NNZ(p) == LET f[i \in 0..NR(p)] == IF i = 0 THEN 0 ELSE f[i-1] + Len(p.rows[i]) IN f[NR(p)]

\* ---- projection equality (mirror check included: logged column view must equal transpose of spec's rows)
ProjEq(p, st) == /\ st.nr = NR(p) /\ st.nc = NC(p)
                 /\ st.rows = p.rows /\ st.cols = ColView(p)
                 /\ st.lhs = p.lhs /\ st.rhs = p.rhs /\ st.lo = p.lo /\ st.up = p.up /\ st.obj = p.obj
                 /\ st.nnz = NNZ(p) /\ st.hasSol = FALSE /\ st.status = 0

Init == lp = EmptyLP /\ l = 1
Ev == Tr[l]
Step(newlp) == lp' = newlp /\ ProjEq(newlp, Ev.st) /\ l' = l + 1
Next == /\ l <= Len(Tr)
        /\ \/ Ev.a = "Reset" /\ lp' = EmptyLP /\ l' = l + 1
           \/ Ev.a = "addRowReal" /\ Step(AddRow(lp, Ev.lhs, Ev.vec, Ev.rhs))
           \/ Ev.a = "addColReal" /\ Step(AddCol(lp, Ev.obj, Ev.lo, Ev.vec, Ev.up))
           \/ Ev.a = "removeRowReal" /\ Step(RemoveRow(lp, Ev.i))
           \/ Ev.a = "removeColReal" /\ Step(RemoveCol(lp, Ev.j))
           \/ Ev.a = "changeLhsReal" /\ Step([lp EXCEPT !.lhs[Ev.i + 1] = Ev.v])
           \/ Ev.a = "changeBoundsReal" /\ Step([lp EXCEPT !.lo[Ev.j + 1] = Ev.lo, !.up[Ev.j + 1] = Ev.up])
           \/ Ev.a = "changeElementReal" /\ Step(ChangeElement(lp, Ev.i, Ev.j, Ev.v))
           \/ Ev.a = "removeRowsReal" /\ Ev.out = NewPerm(Ev.perm) /\ Step(RemoveRows(lp, Ev.perm))
Accepted == TLCGet("stats").diameter - 1 = Len(Tr)
Report == IF Accepted THEN TRUE ELSE PrintT(<<"REJECTED at line", TLCGet("stats").diameter, "of", Len(Tr)>>) /\ FALSE
====
