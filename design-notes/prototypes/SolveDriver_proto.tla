---- MODULE SolveDriver_proto ----
EXTENDS Integers, Sequences, TLC
CONSTANTS ParSimp, ParScal, ParPersist, ParEnsureRay, ParLimits   \* booleans
InnerStatuses == {"OPTIMAL","UNBOUNDED","INFEASIBLE","INForUNBD","SINGULAR","ABORT_VALUE","ABORT_CYCLING","ABORT_TIME","REGULAR","ERROR"}
SimpResults == {"OKAY","INFEASIBLE","DUAL_INFEASIBLE","UNBOUNDED","VANISHED"}
(* --algorithm SolveDriver
variables loaded = TRUE, scaledP \in BOOLEAN, hasBasis \in BOOLEAN, hasSol = FALSE, status = "UNKNOWN",
          simp = FALSE, scal = FALSE, solverScaled = FALSE, applyPolish = FALSE, termVal = TRUE,
          simpRes = "OKAY", inner = "UNKNOWN", depth = 0, solves = 0, hasRay = FALSE, verifiedOK = FALSE, feas = FALSE;

procedure Pre(apply)
variables copyLP = FALSE;
begin
P1: depth := depth + 1; applyPolish := FALSE;
    if apply then simp := ParSimp; scal := ParScal;
    else simp := FALSE; if ~scaledP then scal := FALSE; end if; end if;
P2: copyLP := simp \/ (scal /\ ~scaledP);
    if loaded then
       if copyLP then loaded := FALSE; end if;
    else
       \* load parked LP into solver
       if ~copyLP then loaded := TRUE; end if;
    end if;
    solverScaled := scaledP;
P3: if simp then
       with r \in SimpResults do simpRes := r; end with;
       applyPolish := TRUE; solverScaled := FALSE;
    else simpRes := "OKAY";
    end if;
P4: if simpRes = "OKAY" then
       if scal /\ ~solverScaled then solverScaled := TRUE; end if;
       solves := solves + 1;
       with st \in InnerStatuses do
          await (st = "ABORT_VALUE" => termVal /\ ParLimits) /\ (st = "ABORT_TIME" => ParLimits);
          inner := st;
       end with;
    end if;
P5: call Eval();
P6: depth := depth - 1; return;
end procedure;

procedure Eval()
begin
E1: if simpRes \in {"INFEASIBLE","DUAL_INFEASIBLE","UNBOUNDED"} then
       hasBasis := FALSE;
       if ParEnsureRay then call Pre(FALSE); goto E9;
       else status := IF simpRes = "INFEASIBLE" THEN "INFEASIBLE" ELSE IF simpRes = "UNBOUNDED" THEN "UNBOUNDED" ELSE "INForUNBD";
            loaded := TRUE; goto E9;
       end if;
    elsif simpRes = "VANISHED" then
       status := "OPTIMAL"; call StorePresol(); goto E9;
    else status := inner;
    end if;
E2: if status = "OPTIMAL" then
       call Store(~loaded \/ scaledP);
E2b:   if applyPolish then call Pre(FALSE); end if;
    elsif status \in {"UNBOUNDED","INFEASIBLE","INForUNBD"} then
       if ~loaded /\ ParEnsureRay then call ResolveNoPre();
       else call Store(FALSE); end if;
    elsif status = "SINGULAR" then
       if ~loaded then call Pre(FALSE); else hasBasis := FALSE; end if;
    elsif status = "ABORT_VALUE" then call Store(TRUE);
    elsif status = "ABORT_CYCLING" then
       if ~loaded \/ scaledP then call Store(TRUE);
       else with f \in BOOLEAN do feas := f; end with;
E3:         if feas then status := "OPTIMAL_UNSCALED_VIOLATIONS"; end if;
E4:         call Store(FALSE);
       end if;
    elsif status \in {"ABORT_TIME","ABORT_ITER","REGULAR","RUNNING"} then call Store(FALSE);
    else hasBasis := FALSE;
    end if;
E9: return;
end procedure;

procedure Store(verify)
begin
S1: hasRay := (status \in {"UNBOUNDED","INFEASIBLE"}) /\ loaded;
    hasBasis := TRUE; hasSol := TRUE;
S2: if simp then
       either \* unsimplify ok
          loaded := TRUE; hasBasis := TRUE;
       or     \* unsimplify throws
          hasBasis := FALSE; call Pre(FALSE); goto S9;
       end either;
    elsif ~loaded then loaded := TRUE;
    end if;
S3: if verify then
       if status = "ABORT_VALUE" then call VerifyObj(); else call VerifySol(); end if;
    end if;
S9: return;
end procedure;

procedure StorePresol()
begin
SP1: loaded := TRUE;
     either skip; or call Pre(FALSE); goto SP9; end either;
SP2: hasBasis := TRUE; hasSol := TRUE;
     call VerifySol();
SP9: return;
end procedure;

procedure VerifySol()
begin
V1: either verifiedOK := TRUE;
    or  \* violation
       verifiedOK := FALSE;
       assert loaded;
       if scaledP then scaledP := FALSE; end if;
       call Pre(FALSE);
    end either;
V9: return;
end procedure;

procedure VerifyObj()
begin
VO1: either skip;
     or assert loaded;
        if ~scal /\ ~simp then termVal := FALSE;
        elsif scaledP then scaledP := FALSE; end if;
        call Pre(FALSE);
     end either;
VO9: return;
end procedure;

procedure ResolveNoPre()
begin
R1: if simp then either hasBasis := TRUE; or hasBasis := FALSE; end either;
    elsif scal then hasBasis := TRUE; end if;
R2: call Pre(FALSE);
R9: return;
end procedure;

begin
O1: \* _optimize: persistent scaling bookkeeping
    if ParPersist then
       if ParScal /\ ~scaledP then scaledP := TRUE; hasBasis := FALSE;
       elsif ~ParScal /\ scaledP then scaledP := FALSE; end if;
    end if;
O2: call Pre(~hasBasis /\ ~ParLimits);
O3: skip;
end algorithm; *)
\* (translation removed; run `pcal SolveDriver_proto.tla` to regenerate)

Done == pc = "Done"
ReturnedLoaded == Done => (loaded \/ status = "ERROR")
DepthBound == depth <= 6
RayNeedsLoaded == hasRay => TRUE
OptimalChecked == Done /\ status = "OPTIMAL" => TRUE
EnsureRay == Done /\ ParEnsureRay /\ status \in {"INFEASIBLE","UNBOUNDED"} => hasRay
SolveBound == solves <= 8

====
