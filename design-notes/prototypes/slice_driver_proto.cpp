// scratch vertical slice: random modification histories on SoPlex, NDJSON trace with full projection
#include "soplex.h"
#include <iostream>
#include <fstream>
#include <sstream>
#include <random>
#include <algorithm>
using namespace soplex;
static std::string num(double v){ if(v>=1e100) return "\"inf\""; if(v<=-1e100) return "\"-inf\""; std::ostringstream o; o<<"\""<<(long long)v<<"\""; return o.str(); }
static std::string proj(SoPlex& s){
  std::ostringstream o; int nr=s.numRows(), nc=s.numCols();
  o<<"{\"nr\":"<<nr<<",\"nc\":"<<nc<<",\"rows\":[";
  for(int i=0;i<nr;i++){ DSVector r; s.getRowVectorReal(i,r); std::vector<std::pair<int,double>> e; for(int k=0;k<r.size();k++) e.push_back({r.index(k),r.value(k)}); std::sort(e.begin(),e.end());
    o<<(i?",":"")<<"["; for(size_t k=0;k<e.size();k++) o<<(k?",":"")<<"["<<e[k].first<<","<<num(e[k].second)<<"]"; o<<"]"; }
  o<<"],\"cols\":[";
  for(int j=0;j<nc;j++){ DSVector c; s.getColVectorReal(j,c); std::vector<std::pair<int,double>> e; for(int k=0;k<c.size();k++) e.push_back({c.index(k),c.value(k)}); std::sort(e.begin(),e.end());
    o<<(j?",":"")<<"["; for(size_t k=0;k<e.size();k++) o<<(k?",":"")<<"["<<e[k].first<<","<<num(e[k].second)<<"]"; o<<"]"; }
  auto vec=[&](const char* n, std::function<double(int)> f, int m){ o<<",\""<<n<<"\":["; for(int i=0;i<m;i++) o<<(i?",":"")<<num(f(i)); o<<"]"; };
  o<<"]"; vec("lhs",[&](int i){return s.lhsReal(i);},nr); vec("rhs",[&](int i){return s.rhsReal(i);},nr);
  vec("lo",[&](int i){return s.lowerReal(i);},nc); vec("up",[&](int i){return s.upperReal(i);},nc); vec("obj",[&](int i){return s.objReal(i);},nc);
  o<<",\"nnz\":"<<s.numNonzeros()<<",\"hasSol\":"<<(s.hasSol()?"true":"false")<<",\"status\":"<<int(s.status())<<"}"; return o.str();
}
int main(int argc,char**argv){
  int seed=atoi(argv[1]), nexec=atoi(argv[2]), len=atoi(argv[3]); const char* mut=argc>4?argv[4]:"";
  std::mt19937 g(seed); std::ofstream out(argv[5]?argv[5]:"trace.ndjson");
  auto R=[&](int a,int b){ return a+(int)(g()%(unsigned)(b-a+1)); };
  auto val=[&]{ int k=R(0,9); return k==0? -infinity : k==1? infinity : (double)R(-3,3); };
  for(int e=0;e<nexec;e++){
    SoPlex s; s.setIntParam(SoPlex::VERBOSITY,0); s.setIntParam(SoPlex::OBJSENSE,SoPlex::OBJSENSE_MINIMIZE);
    out<<"{\"a\":\"Reset\"}\n";
    for(int step=0;step<len;step++){
      int nr=s.numRows(), nc=s.numCols(); int a=R(0,7); std::ostringstream ev;
      if(a==0 || nc==0){ // addColReal
        double obj=R(-2,2), lo=R(0,3)==0?-infinity:R(-2,0), up=R(0,3)==0?infinity:R(0,3); DSVector c; std::ostringstream v; int first=1;
        for(int i=0;i<nr+ (R(0,5)==0?1:0);i++) if(R(0,1)){ double x=R(-3,3); if(x==0) continue; c.add(i,x); v<<(first?"":",")<<"["<<i<<","<<num(x)<<"]"; first=0; }
        s.addColReal(LPCol(obj,c,up,lo)); ev<<"{\"a\":\"addColReal\",\"obj\":"<<num(obj)<<",\"lo\":"<<num(lo)<<",\"up\":"<<num(up)<<",\"vec\":["<<v.str()<<"]";
      } else if(a==1){ // addRowReal
        double lhs=R(0,3)==0?-infinity:R(-3,0), rhs=R(0,3)==0?infinity:R(0,4); DSVector r; std::ostringstream v; int first=1;
        for(int j=0;j<nc+(R(0,5)==0?2:0);j++) if(R(0,1)){ double x=R(-3,3); if(x==0) continue; r.add(j,x); v<<(first?"":",")<<"["<<j<<","<<num(x)<<"]"; first=0; }
        s.addRowReal(LPRow(lhs,r,rhs)); ev<<"{\"a\":\"addRowReal\",\"lhs\":"<<num(lhs)<<",\"rhs\":"<<num(rhs)<<",\"vec\":["<<v.str()<<"]";
      } else if(a==2 && nr>0){ int i=R(0,nr-1); s.removeRowReal(i); ev<<"{\"a\":\"removeRowReal\",\"i\":"<<i;
      } else if(a==3 && nc>1){ int j=R(0,nc-1); s.removeColReal(j); ev<<"{\"a\":\"removeColReal\",\"j\":"<<j;
      } else if(a==4 && nr>0){ int i=R(0,nr-1); double v=R(0,2)==0?-infinity:R(-4,0); if(v>s.rhsReal(i)) v=-infinity; s.changeLhsReal(i,v); ev<<"{\"a\":\"changeLhsReal\",\"i\":"<<i<<",\"v\":"<<num(v);
      } else if(a==5 && nr>0){ int i=R(0,nr-1), j=R(0,nc-1); double v=R(-3,3);
        if(std::string(mut)=="elem" && i==1 && j==0) s.changeElementReal(i,j,v+1); else s.changeElementReal(i,j,v);
        ev<<"{\"a\":\"changeElementReal\",\"i\":"<<i<<",\"j\":"<<j<<",\"v\":"<<num(v);
      } else if(a==6 && nr>1){ std::vector<int> perm(nr); std::ostringstream p; for(int i=0;i<nr;i++){ perm[i]=R(0,2)==0?-1:0; p<<(i?",":"")<<perm[i]; }
        s.removeRowsReal(perm.data()); ev<<"{\"a\":\"removeRowsReal\",\"perm\":["<<p.str()<<"],\"out\":["; for(int i=0;i<nr;i++) ev<<(i?",":"")<<perm[i]; ev<<"]";
      } else { int j=R(0,nc-1); double lo=R(0,3)==0?-infinity:R(-2,0), up=R(0,3)==0?infinity:R(0,3); s.changeBoundsReal(j,lo,up); ev<<"{\"a\":\"changeBoundsReal\",\"j\":"<<j<<",\"lo\":"<<num(lo)<<",\"up\":"<<num(up); }
      out<<ev.str()<<",\"st\":"<<proj(s)<<"}\n";
    }
  }
}
