---- MODULE MCTiny_proto ----
EXTENDS TinyLP_proto
VARIABLE lp, v
BT == {"free","lo","up","box","fix"}
Bnd(t) == IF t = "free" THEN [lo |-> 0, up |-> 0, loF |-> FALSE, upF |-> FALSE]
     ELSE IF t = "lo" THEN [lo |-> 0, up |-> 0, loF |-> TRUE, upF |-> FALSE]
     ELSE IF t = "up" THEN [lo |-> 0, up |-> 2, loF |-> FALSE, upF |-> TRUE]
     ELSE IF t = "box" THEN [lo |-> -1, up |-> 2, loF |-> TRUE, upF |-> TRUE]
     ELSE [lo |-> 1, up |-> 1, loF |-> TRUE, upF |-> TRUE]
Init == \E a \in [1..2 -> [1..2 -> {-1,0,1,2}]], ct \in [1..2 -> BT], rt \in [1..2 -> BT], c \in [1..2 -> {-1,0,1}] :
          /\ lp = [n |-> 2, m |-> 2, A |-> a,
                   lo |-> [k \in 1..4 |-> IF k <= 2 THEN Bnd(ct[k]).lo ELSE Bnd(rt[k-2]).lo],
                   up |-> [k \in 1..4 |-> IF k <= 2 THEN Bnd(ct[k]).up ELSE Bnd(rt[k-2]).up],
                   loF |-> [k \in 1..4 |-> IF k <= 2 THEN Bnd(ct[k]).loF ELSE Bnd(rt[k-2]).loF],
                   upF |-> [k \in 1..4 |-> IF k <= 2 THEN Bnd(ct[k]).upF ELSE Bnd(rt[k-2]).upF],
                   c |-> c]
          /\ v = <<"none">>
Next == v = <<"none">> /\ v' = Verdict(lp) /\ UNCHANGED lp
Inv == TRUE
====
