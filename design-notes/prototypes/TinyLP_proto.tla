---- MODULE TinyLP_proto ----
EXTENDS Integers, Sequences, FiniteSets, TLC
\* lp: [n, m, A (m x n ints), lo, up (n+m ints), loF, upF (n+m bools), c (n ints)]  minimise
Range(k) == 1..k
M(lp, i, k) == IF k <= lp.n THEN lp.A[i][k] ELSE IF k = lp.n + i THEN -1 ELSE 0
C(lp, k) == IF k <= lp.n THEN lp.c[k] ELSE 0

RECURSIVE Det(_)
Minor(Mx, r, cc) == LET d == Len(Mx) IN
   [i \in 1..d-1 |-> [j \in 1..d-1 |-> Mx[IF i < r THEN i ELSE i+1][IF j < cc THEN j ELSE j+1]]]
Det(Mx) == LET d == Len(Mx) IN
   IF d = 0 THEN 1 ELSE IF d = 1 THEN Mx[1][1]
   ELSE LET f[j \in 0..d] == IF j = 0 THEN 0
              ELSE f[j-1] + (IF j % 2 = 1 THEN 1 ELSE -1) * Mx[1][j] * Det(Minor(Mx, 1, j))
        IN f[d]

SortedSeq(S) == CHOOSE s \in [1..Cardinality(S) -> S] : \A i, j \in 1..Cardinality(S) : i < j => s[i] < s[j]
Sum(f, S) == LET RECURSIVE H(_) 
                 H(T) == IF T = {} THEN 0 ELSE LET x == CHOOSE x \in T : TRUE IN f[x] + H(T \ {x})
             IN H(S)

NbChoices(lp, k) == IF lp.loF[k] /\ lp.upF[k] THEN (IF lp.lo[k] = lp.up[k] THEN {"L"} ELSE {"L","U"})
                    ELSE IF lp.loF[k] THEN {"L"} ELSE IF lp.upF[k] THEN {"U"} ELSE {"Z"}
NbVal(lp, k, s) == IF s = "L" THEN lp.lo[k] ELSE IF s = "U" THEN lp.up[k] ELSE 0

\* evaluation of one basis candidate: returns record
Eval(lp, B, nb) ==
  LET m == lp.m  N == (1..(lp.n + m)) \ B
      bs == SortedSeq(B)
      MB == [i \in 1..m |-> [j \in 1..m |-> M(lp, i, bs[j])]]
      D  == Det(MB)
      r  == [i \in 1..m |-> 0 - Sum([k \in N |-> M(lp, i, k) * NbVal(lp, k, nb[k])], N)]
      znum == [j \in 1..m |-> Det([i \in 1..m |-> [jj \in 1..m |-> IF jj = j THEN r[i] ELSE MB[i][jj]]])]
      sg == IF D > 0 THEN 1 ELSE -1
      pfeas == \A j \in 1..m : LET k == bs[j] IN
                  /\ (lp.loF[k] => sg * znum[j] >= sg * D * lp.lo[k])
                  /\ (lp.upF[k] => sg * znum[j] <= sg * D * lp.up[k])
      \* dual: MB^T y = cB
      ynum == [i \in 1..m |-> Det([j \in 1..m |-> [ii \in 1..m |-> IF ii = i THEN C(lp, bs[j]) ELSE MB[ii][j]]])]
      dnum == [k \in N |-> C(lp, k) * D - Sum([i \in 1..m |-> M(lp, i, k) * ynum[i]], 1..m)]
      dfeas == \A k \in N : LET d == sg * dnum[k] IN
                  IF lp.loF[k] /\ lp.upF[k] /\ lp.lo[k] = lp.up[k] THEN TRUE
                  ELSE IF nb[k] = "L" THEN d >= 0 ELSE IF nb[k] = "U" THEN d <= 0 ELSE d = 0
      objnum == Sum([j \in 1..m |-> C(lp, bs[j]) * znum[j]], 1..m) + D * Sum([k \in N |-> C(lp, k) * NbVal(lp, k, nb[k])], N)
  IN [reg |-> D # 0, pf |-> D # 0 /\ pfeas, df |-> D # 0 /\ dfeas, on |-> objnum, od |-> D]

Cands(lp) == { <<B, nb>> \in { <<B, nb>> : B \in {S \in SUBSET (1..(lp.n+lp.m)) : Cardinality(S) = lp.m},
                                   nb \in [1..(lp.n+lp.m) -> {"L","U","Z"}] } : 
                 \A k \in 1..(lp.n+lp.m) : IF k \in B THEN nb[k] = "L" ELSE nb[k] \in NbChoices(lp, k) }

Verdict(lp) ==
  LET ev == { Eval(lp, c[1], c[2]) : c \in Cands(lp) }
      opt == { e \in ev : e.pf /\ e.df }
  IN IF opt # {} THEN LET e == CHOOSE e \in opt : TRUE IN <<"OPT", e.on, e.od>>
     ELSE IF \A e \in ev : ~e.pf THEN (IF \A e \in ev : ~e.df THEN <<"PDINF">> ELSE <<"INF">>)
     ELSE <<"UNB">>
====
