import tlc2.value.impl.*;
import java.math.BigInteger;
public class BigRat {
  static BigInteger[] parse(String s){ int i=s.indexOf('/'); if(i<0) return new BigInteger[]{new BigInteger(s),BigInteger.ONE}; return new BigInteger[]{new BigInteger(s.substring(0,i)), new BigInteger(s.substring(i+1))}; }
  static String norm(BigInteger n, BigInteger d){ if(d.signum()<0){n=n.negate();d=d.negate();} BigInteger g=n.gcd(d); if(g.signum()!=0&&!g.equals(BigInteger.ONE)){n=n.divide(g);d=d.divide(g);} return d.equals(BigInteger.ONE)?n.toString():n+"/"+d; }
  static String s(Value v){ return ((StringValue)v).val.toString(); }
  public static Value BRAdd(final Value a, final Value b){ BigInteger[] x=parse(s(a)), y=parse(s(b)); return new StringValue(norm(x[0].multiply(y[1]).add(y[0].multiply(x[1])), x[1].multiply(y[1]))); }
  public static Value BRMul(final Value a, final Value b){ BigInteger[] x=parse(s(a)), y=parse(s(b)); return new StringValue(norm(x[0].multiply(y[0]), x[1].multiply(y[1]))); }
  public static Value BRLeq(final Value a, final Value b){ BigInteger[] x=parse(s(a)), y=parse(s(b)); return x[0].multiply(y[1]).compareTo(y[0].multiply(x[1]))<=0 ? BoolValue.ValTrue : BoolValue.ValFalse; }
  public static Value BRDot(final Value a, final Value b){ TupleValue x=(TupleValue)a.toTuple(), y=(TupleValue)b.toTuple(); BigInteger n=BigInteger.ZERO,d=BigInteger.ONE; for(int i=0;i<x.elems.length;i++){ BigInteger[] p=parse(s(x.elems[i])), q=parse(s(y.elems[i])); BigInteger pn=p[0].multiply(q[0]), pd=p[1].multiply(q[1]); n=n.multiply(pd).add(pn.multiply(d)); d=d.multiply(pd);} return new StringValue(norm(n,d)); }
}
