---- MODULE TV_proto ----
EXTENDS BigRat, TLC, Json, Sequences, Naturals, IOUtils
Tr == ndJsonDeserialize(IOEnv.TRACE)
VARIABLE l
Init == l = 1
RowOK(ev, i) == BRDot(ev.A[i], ev.x) = ev.s[i]
RowOK2(ev, i) == LET f[j \in 0..Len(ev.x)] == IF j = 0 THEN "0" ELSE BRAdd(f[j-1], BRMul(ev.A[i][j], ev.x[j])) IN f[Len(ev.x)] = ev.s[i]
Next == l <= Len(Tr) /\ (\A i \in 1..Len(Tr[l].s) : RowOK(Tr[l], i) /\ RowOK2(Tr[l], i)) /\ l' = l + 1
Accepted == TLCGet("stats").diameter - 1 = Len(Tr)
====
