---- MODULE DS_gen_proto ----
EXTENDS Integers, Sequences, FiniteSets, TLC, Json
CONSTANTS MaxN, K
VARIABLES items, free, top, hist   \* items: seq of keys in numbering order; free: stack of free slots (as in DataSet); top = thesize
vars == <<items, free, top, hist>>
Init == items = <<>> /\ free = <<>> /\ top = 0 /\ hist = <<>> /\ TLCSet(1, {})
Add == /\ Len(items) < MaxN
       /\ LET k == IF free # <<>> THEN Head(free) ELSE top IN
          /\ items' = Append(items, k)
          /\ free' = IF free # <<>> THEN Tail(free) ELSE free
          /\ top' = IF free # <<>> THEN top ELSE top + 1
          /\ hist' = Append(hist, [a |-> "add", key |-> k, exp |-> items'])
RECURSIVE Pop(_, _)
Pop(f, t) == IF f # <<>> /\ Head(f) = t - 1 THEN Pop(Tail(f), t - 1) ELSE <<f, t>>
Remove(n) == /\ n \in 1..Len(items)
             /\ LET k == items[n]  last == Len(items)
                    it2 == IF n = last THEN SubSeq(items, 1, last-1) ELSE [SubSeq(items, 1, last-1) EXCEPT ![n] = items[last]]
                    p == Pop(<<k>> \o free, top) IN
                /\ items' = it2 /\ free' = p[1] /\ top' = p[2]
                /\ hist' = Append(hist, [a |-> "remove", n |-> n-1, exp |-> items'])
Next == Len(hist) < K /\ (Add \/ \E n \in 1..MaxN : Remove(n))
KeysDistinct == \A i, j \in 1..Len(items) : i # j => items[i] # items[j]
FreeDisjoint == \A i \in 1..Len(free) : \A j \in 1..Len(items) : free[i] # items[j]
Acc == IF Len(hist) = K THEN TLCSet(1, TLCGet(1) \cup {hist}) ELSE TRUE


RECURSIVE S2S(_)
S2S(S) == IF S = {} THEN <<>> ELSE LET x == CHOOSE x \in S : TRUE IN <<x>> \o S2S(S \ {x})
Post == JsonSerialize("hist.json", S2S(TLCGet(1)))
====
